// Package c19: standard-library wrappers agree with Go; encoders invert their decoders.
//
// Part W (wrappers): for every function of modules strings, strconv, math, bytes,
// base64, filepath, regexp (+ regexp object methods), every string method and every
// byte_slice method - names DISCOVERED from the live module objects / the GetAttr
// switches of the tree under test - a table row gives the parameter pools and a Go
// closure that calls the Go standard library directly. Every argument tuple over
// the pools is called through the object API (Builtin.Call) and through generated
// scripts (risor.Eval, many calls per script) and compared with Go.
//
// Part C (codecs, see codecs.go): round trips, malformed inputs, json codec vs json module.
package c19

import (
	"context"
	"fmt"
	"os"
	"runtime/debug"
	"sort"
	"strings"
	"sync"
	"sync/atomic"
	"time"

	"github.com/risor-io/risor"
	"github.com/risor-io/risor/builtins"
	modbase64 "github.com/risor-io/risor/modules/base64"
	modbytes "github.com/risor-io/risor/modules/bytes"
	modfilepath "github.com/risor-io/risor/modules/filepath"
	modjson "github.com/risor-io/risor/modules/json"
	modmath "github.com/risor-io/risor/modules/math"
	modregexp "github.com/risor-io/risor/modules/regexp"
	modstrconv "github.com/risor-io/risor/modules/strconv"
	modstrings "github.com/risor-io/risor/modules/strings"
	"github.com/risor-io/risor/object"

	"verif/internal/ev"
)

var moduleCtors = map[string]func() *object.Module{
	"strings":  modstrings.Module,
	"strconv":  modstrconv.Module,
	"math":     modmath.Module,
	"bytes":    modbytes.Module,
	"base64":   modbase64.Module,
	"filepath": modfilepath.Module,
	"regexp":   modregexp.Module,
	"json":     modjson.Module,
}

var moduleOrder = []string{"strings", "strconv", "math", "bytes", "base64", "filepath", "regexp", "json"}

// method families: group name -> (source file, receiver type) of the GetAttr switch
var methodSources = map[string][2]string{
	"string":        {"object/string.go", "String"},
	"byte_slice":    {"object/byte_slice.go", "ByteSlice"},
	"regexp.object": {"modules/regexp/regexp_object.go", "Regexp"},
}

// names handled by part C rather than by a table row
var coveredByCodecPart = map[string]string{
	"json.marshal":   "part C: round trip and agreement with the json codec",
	"json.unmarshal": "part C: round trip, malformed inputs and agreement with the json codec",
}

var bg = context.Background()

// sharedModules: builtin functions are stateless closures; one set serves the object route.
var sharedModules = func() map[string]*object.Module {
	m := map[string]*object.Module{}
	for k, c := range moduleCtors {
		m[k] = c()
	}
	return m
}()

// ---------------------------------------------------------------- case = one call

type wcase struct {
	Part   string   `json:"part"`   // "W"
	Route  string   `json:"route"`  // "object" | "script"
	Target string   `json:"target"` // group.name
	Args   []string `json:"args"`   // val tokens (receiver first for methods)
}

// callObject performs the call through the object API. A Go panic is caught and returned as text.
func callObject(f *fn, a []val) (res object.Object, panicked string) {
	defer func() {
		if p := recover(); p != nil {
			res, panicked = nil, fmt.Sprint(p)
		}
	}()
	args := make([]object.Object, len(a))
	for i, v := range a {
		args[i] = v.obj()
	}
	if !f.method {
		mod := sharedModules[f.group]
		if f.name == "(call)" {
			return mod.Call(bg, args...), ""
		}
		attr, ok := mod.GetAttr(f.name)
		if !ok {
			return object.Errorf("harness: module %s has no attribute %s", f.group, f.name), ""
		}
		b, ok := attr.(*object.Builtin)
		if !ok {
			return object.Errorf("harness: %s is not a builtin", f.target()), ""
		}
		return b.Call(bg, args...), ""
	}
	recv := args[0]
	if f.group == "regexp.object" {
		recv = modregexp.Compile(bg, args[0])
		if _, bad := recv.(*object.Error); bad {
			return recv, ""
		}
	}
	attr, ok := recv.GetAttr(f.name)
	if !ok {
		return object.Errorf("harness: %s has no attribute %s", recv.Type(), f.name), ""
	}
	return attr.(*object.Builtin).Call(bg, args[1:]...), ""
}

// verdict compares one observed result with the Go oracle.
// got == nil with panicked != "" means a Go panic (object API) or a "panic:" error out of Eval (script).
func verdict(f *fn, e exp, got object.Object, panicked string) (sig, observed string) {
	if panicked != "" {
		return "panic:" + f.target() + ":" + panicClass(panicked), "Go panic: " + ev.Clip(panicked, 200)
	}
	c := canonObj(got)
	switch e.kind {
	case 'a':
		return "", c
	case 'e':
		if c != "ERR" {
			return "no-error:" + f.target(), c
		}
		return "", c
	}
	if c == "ERR" {
		return "error:" + f.target(), "error: " + ev.Clip(errText(got), 200)
	}
	for _, w := range e.alts {
		if w == c {
			return "", c
		}
	}
	return "mismatch:" + f.target(), c
}

func panicClass(msg string) string {
	m := strings.ToLower(msg)
	switch {
	case strings.Contains(m, "negative"):
		return "negative-count"
	case strings.Contains(m, "overflow"), strings.Contains(m, "out of range"), strings.Contains(m, "too large"):
		return "too-large"
	case strings.Contains(m, "nil pointer"), strings.Contains(m, "invalid memory"):
		return "nil-deref"
	case strings.Contains(m, "interface conversion"):
		return "type-assertion"
	}
	return "other"
}

// ---------------------------------------------------------------- script route

func scriptExpr(f *fn, names []string) string {
	switch {
	case !f.method && f.name == "(call)":
		return f.group + "(" + strings.Join(names, ", ") + ")"
	case !f.method:
		return f.group + "." + f.name + "(" + strings.Join(names, ", ") + ")"
	case f.group == "regexp.object":
		return "regexp.compile(" + names[0] + ")." + f.name + "(" + strings.Join(names[1:], ", ") + ")"
	}
	return names[0] + "." + f.name + "(" + strings.Join(names[1:], ", ") + ")"
}

type globalsBuilder struct {
	byTok map[string]string
	g     map[string]any
}

func newGlobals() *globalsBuilder {
	b := builtins.Builtins()
	g := map[string]any{}
	for _, n := range []string{"try", "encode", "decode", "byte_slice", "string", "len", "type"} {
		g[n] = b[n]
	}
	for k, c := range moduleCtors {
		g[k] = c()
	}
	return &globalsBuilder{byTok: map[string]string{}, g: g}
}

func (gb *globalsBuilder) name(v val) string {
	t := v.tok()
	if n, ok := gb.byTok[t]; ok {
		return n
	}
	n := fmt.Sprintf("g%d", len(gb.byTok))
	gb.byTok[t] = n
	gb.g[n] = v.obj()
	return n
}

func evalScript(src string, g map[string]any) (res object.Object, err error) {
	defer func() {
		if p := recover(); p != nil {
			res, err = nil, fmt.Errorf("panic out of risor.Eval: %v", p)
		}
	}()
	return risor.Eval(bg, src, risor.WithoutDefaultGlobals(), risor.WithGlobals(g))
}

type scall struct {
	f *fn
	a []val
}

// runScriptBatch evaluates many calls in one script; each call is isolated by try().
// Returns per call: result object (an *object.Error = raised error) or a panic text.
func runScriptBatch(calls []scall) (res []object.Object, pan []string, src string) {
	item := func(gb *globalsBuilder, i int) string {
		c := calls[i]
		names := make([]string, len(c.a))
		for j, v := range c.a {
			names[j] = gb.name(v)
		}
		return "try(func() { v := " + scriptExpr(c.f, names) + "; return [v] }, nil)"
	}
	res, pan = runItems(len(calls), item)
	if len(calls) > 0 {
		src = item(newGlobals(), 0)
	}
	return res, pan, src
}

func unwrap1(it object.Object) object.Object {
	if l, ok := it.(*object.List); ok && len(l.Value()) == 1 {
		return l.Value()[0]
	}
	if it == object.Nil {
		return object.Errorf("raised error (caught by try)")
	}
	return object.Errorf("harness: unexpected script item %s", it.Inspect())
}

// ---------------------------------------------------------------- enumeration

func tupleCount(f *fn) int {
	total := 0
	for n := f.min; n <= len(f.params); n++ {
		c := 1
		for i := 0; i < n; i++ {
			c *= len(f.params[i])
		}
		total += c
	}
	return total
}

// tuple returns the idx-th argument tuple of f (arity classes in order, mixed radix inside).
func tuple(f *fn, idx int) []val {
	for n := f.min; n <= len(f.params); n++ {
		c := 1
		for i := 0; i < n; i++ {
			c *= len(f.params[i])
		}
		if idx >= c {
			idx -= c
			continue
		}
		a := make([]val, n)
		for i := n - 1; i >= 0; i-- {
			p := f.params[i]
			a[i] = p[idx%len(p)]
			idx /= len(p)
		}
		return a
	}
	panic("tuple index out of range")
}

// benign returns the first n-ary tuple on which Go's function is defined (so that a panic seen after
// substituting one argument is due to the substitution).
func benign(f *fn, n int) []val {
	c := 1
	for i := 0; i < n; i++ {
		c *= len(f.params[i])
	}
	first := make([]val, n)
	for i := 0; i < n; i++ {
		first[i] = f.params[i][0]
	}
	if n < f.min {
		return first
	}
	off := 0
	for k := f.min; k < n; k++ {
		cc := 1
		for i := 0; i < k; i++ {
			cc *= len(f.params[i])
		}
		off += cc
	}
	for idx := 0; idx < c && idx < 500; idx++ {
		a := tuple(f, off+idx)
		if f.gof(a).kind == 'v' {
			return a
		}
	}
	return first
}

func describe(f *fn, a []val) string {
	return fmt.Sprintf("%s(%s)", f.target(), strings.Join(toks(a), ", "))
}

// collector keeps, per signature, the count and the smallest witness, so that what is
// reported does not depend on which goroutine got there first.
type collector struct {
	mu sync.Mutex
	m  map[string]*agg
}

type agg struct {
	n        int
	rk, size int
	what     string
	replay   any
	obs, exp string
}

var col = &collector{m: map[string]*agg{}}

func (c *collector) Report(sig, what string, replay any, observed, expected string) {
	c.Lazy(sig, rank(what), len(what), func() (string, any, string, string) { return what, replay, observed, expected })
}

// Lazy counts one case for sig; the witness text is only built when the case could become the
// smallest one seen so far (order: object route first, then size, then text).
func (c *collector) Lazy(sig string, rk, size int, mk func() (what string, replay any, obs, exp string)) {
	c.mu.Lock()
	defer c.mu.Unlock()
	a := c.m[sig]
	if a == nil {
		a = &agg{rk: rk, size: size}
		a.what, a.replay, a.obs, a.exp = mk()
		a.n = 1
		c.m[sig] = a
		return
	}
	a.n++
	if rk > a.rk || (rk == a.rk && size > a.size) {
		return
	}
	what, replay, obs, exp := mk()
	if rk < a.rk || size < a.size || what < a.what {
		a.rk, a.size, a.what, a.replay, a.obs, a.exp = rk, size, what, replay, obs, exp
	}
}

// rank prefers witnesses seen through the object API (they carry risor's error text).
func rank(what string) int {
	if strings.HasPrefix(what, "object") {
		return 0
	}
	return 1
}

func (c *collector) flush(r *ev.Run) {
	t0 := time.Now()
	defer func() {
		if os.Getenv("VERIF_C19_TIMING") != "" {
			fmt.Fprintf(os.Stderr, "c19 timing: flush %.1fs\n", time.Since(t0).Seconds())
		}
	}()
	c.mu.Lock()
	defer c.mu.Unlock()
	sigs := make([]string, 0, len(c.m))
	for s := range c.m {
		sigs = append(sigs, s)
	}
	sort.Strings(sigs)
	counts := map[string]int{}
	for _, s := range sigs {
		a := c.m[s]
		counts[s] = a.n
		for i := 0; i < a.n; i++ {
			r.Report(s, a.what, a.replay, a.obs, a.exp)
		}
	}
	if len(counts) > 0 {
		r.Set("cases_by_signature", counts)
	}
}

func Check(r *ev.Run, replay string) {
	// tiny live heap + very high allocation rate: the default GC pacing runs thousands of cycles per second
	// and serialises the 16 workers; let the heap grow to a few hundred MB instead
	debug.SetGCPercent(2000)
	defer col.flush(r)
	table := buildTable()
	if replay != "" {
		replayOne(r, table, replay)
		return
	}
	r.Assumptions = []string{
		"argument pools are fixed boundary values per parameter type (see rule); each parameter is fed values of the type(s) its conversion helper accepts; wrong-typed arguments and wrong argument counts are only swept one substitution at a time and judged by 'no Go panic' alone",
		"where Go's function has no counterpart for an argument (|MinInt64| for an int abs, float->int conversion of NaN/Inf/1e308 in pow10, contains_rune/index_rune/index_byte with an argument that is not exactly one valid character/byte) the oracle only demands 'no Go panic'",
		"string-or-byte_slice round trips through byte codecs count as equal when risor's Equals holds in either direction (byte_slice == string holds, string == byte_slice does not; symmetry belongs to C15)",
		"json round trip is judged on JSON-representable values only: nil, bool, int, finite float, string, list, map (byte_slice, NaN, Inf are used only for the codec/module agreement check)",
		"filepath.abs is compared with filepath.Abs in the process working directory, no OS object in the context; filepath.walk_dir and the csv codec are on the commented skip lists",
	}
	if !discover(r, table) {
		return
	}
	stride := 3
	if r.Thorough() {
		stride = 1
	}
	t0 := time.Now()
	partW(r, table, stride)
	if os.Getenv("VERIF_C19_TIMING") != "" {
		fmt.Fprintf(os.Stderr, "c19 timing: partW %.1fs\n", time.Since(t0).Seconds())
	}
	partC(r, stride)
	partI(r, table)
	r.Set("rule", fmt.Sprintf("W: every function/method discovered on modules strings, strconv, math, bytes, base64, filepath, regexp (+regexp object), json.valid, string methods, byte_slice methods x ALL argument tuples over the per-parameter pools (strings %d values incl. invalid UTF-8, NUL, 300 x 'a'; ints %d incl. Min/MaxInt64; floats %d incl. NaN, +-Inf, -0, denormal; byte slices %d; bytes-like %d; string lists %d; numeric strings %d; paths %d; globs %d; regexp patterns %d; base64 inputs %d) for every accepted arity (up to 4 parameters), each through the object API and every %d-th (thorough: every) tuple through generated scripts; compared with the direct Go call (floats bit-wise, NaN==NaN); plus a single-substitution sweep of wrong-typed arguments / wrong argument counts (oracle: no Go panic). C: codecs base64/base32/hex/gzip/urlquery x all pool values, json x every value of depth <= 2 (lists/maps of width <= 2 over 35 scalars and, at depth 2, over the 2569 values of depth <= 1; quick: the second element at depth 2 ranges over the scalars only), object route all, script route all up to depth 1 and every 5th (thorough: 16th) at depth 2; malformed = all strings of length <= 4 over {A,=,!,\\xff,%%,z} per codec as string and as byte_slice, plus codec-specific sets (json: length <= 4 over 10 JSON symbols; base32: length <= 8 over {A,7,=,!}; gzip: every prefix and every single-byte substitution of a valid stream); json codec vs json.marshal/unmarshal on all of those. I (result independence): per codec every ORDERED pair (x, y) of pool values whose single round trip holds (a 12-14 value sub-pool per codec incl. empty and 300-byte inputs run on one goroutine, then in parallel the whole pool - 30 values for the byte codecs and urlquery; json: scalars + sub-pool in quick, all values of depth <= 1 in thorough): e1 := encode(x), deep copy, e2 := encode(y), then e1 unchanged, decode(e1) == x, decode(e2) == y, and d1 := decode(encode(x)) unchanged by a later decode(encode(y)); object API all pairs, scripts every 3rd pair (thorough: all; json every 64th); plus, for every wrapper row whose result is a byte_slice/list/map, all ordered pairs over 12 (thorough 60) argument tuples: the first result's Inspect() is unchanged by the second call. distinct = distinct (target, expected result) pairs",
		len(poolS), len(poolI), len(poolF), len(poolB), len(poolBL), len(poolSL), len(poolNumStr), len(poolPath), len(poolGlob), len(poolPat), len(poolB64In), stride))
}

// discover checks that every discovered name has a table row (or a skip reason) and vice versa.
func discover(r *ev.Run, table []*fn) bool {
	rows := map[string]*fn{}
	for _, f := range table {
		rows[f.target()] = f
	}
	rows["json.valid"] = jsonValidRow() // small extra row, defined in codecs.go
	found := map[string]bool{}
	var missing []string
	counts := map[string]int{}
	note := func(group, name string) {
		t := group + "." + name
		found[t] = true
		counts[group]++
		if _, ok := rows[t]; ok {
			return
		}
		if _, ok := skipped[t]; ok {
			return
		}
		if _, ok := coveredByCodecPart[t]; ok {
			return
		}
		if group == "math" {
			if _, ok := mathConsts[name]; ok {
				return
			}
		}
		missing = append(missing, t)
	}
	for _, m := range moduleOrder {
		names, callable, err := moduleAttrs(sharedModules[m])
		if err != nil {
			r.EngineError("discovery: " + err.Error())
			return false
		}
		for _, n := range names {
			note(m, n)
		}
		if callable {
			note(m, "(call)")
		}
	}
	groups := make([]string, 0, len(methodSources))
	for g := range methodSources {
		groups = append(groups, g)
	}
	sort.Strings(groups)
	for _, g := range groups {
		src := methodSources[g]
		names, err := methodNames(src[0], src[1])
		if err != nil {
			r.EngineError("discovery: " + err.Error())
			return false
		}
		if len(names) == 0 {
			r.EngineError("discovery: no method names found for " + g)
			return false
		}
		for _, n := range names {
			note(g, n)
		}
	}
	if len(missing) > 0 {
		sort.Strings(missing)
		r.EngineError("functions discovered on the live modules that have neither a table row nor a skip reason (add them to c19/table.go): " + strings.Join(missing, ", "))
		return false
	}
	var stale []string
	for t := range rows {
		if !found[t] {
			stale = append(stale, t)
		}
	}
	if len(stale) > 0 {
		sort.Strings(stale)
		r.EngineError("table rows whose function no longer exists: " + strings.Join(stale, ", "))
		return false
	}
	codecs, err := registeredCodecs()
	if err != nil {
		r.EngineError("discovery: " + err.Error())
		return false
	}
	for _, c := range codecs {
		if _, ok := codecSpecs[c]; ok {
			continue
		}
		if _, ok := skippedCodecs[c]; ok {
			continue
		}
		r.EngineError("codec " + c + " is registered in builtins/codecs.go but has neither a spec nor a skip reason in c19/codecs.go")
		return false
	}
	for c := range codecSpecs {
		if _, err := builtins.GetCodec(c); err != nil {
			r.EngineError("codec " + c + " has a spec but is not registered")
			return false
		}
	}
	r.Set("discovered", counts)
	sk := map[string]string{}
	for k, v := range skipped {
		sk[k] = v
	}
	for k, v := range skippedCodecs {
		sk["codec "+k] = v
	}
	r.Set("skipped", sk)
	// constants
	for name, want := range mathConsts {
		o, ok := sharedModules["math"].GetAttr(name)
		r.Eval(1)
		if !ok || canonObj(o) != canonGo(want) {
			col.Report("mismatch:math."+name, fmt.Sprintf("math.%s = %v, Go says %v", name, o, want), wcase{"W", "object", "math." + name, nil}, fmt.Sprint(o), fmt.Sprint(want))
		}
	}
	return true
}

func partW(r *ev.Run, table []*fn, stride int) {
	table = append(append([]*fn{}, table...), jsonValidRow())
	type job struct {
		f  *fn
		lo int
		hi int
	}
	const batch = 120
	var jobs []job
	total := 0
	perGroup := map[string]int{}
	for _, f := range table {
		n := tupleCount(f)
		total += n
		perGroup[f.group] += n
		for lo := 0; lo < n; lo += batch * stride {
			hi := lo + batch*stride
			if hi > n {
				hi = n
			}
			jobs = append(jobs, job{f, lo, hi})
		}
	}
	var scriptCalls, scripts int64
	var sampleOnce sync.Once
	ev.ParFor(len(jobs), func(ji int) {
		j := jobs[ji]
		f := j.f
		var sc []scall
		var scExp []exp
		for idx := j.lo; idx < j.hi; idx++ {
			a := tuple(f, idx)
			e := f.gof(a)
			got, pan := callObject(f, a)
			r.Eval(1)
			r.Outcome(f.target() + "|" + ev.Clip(e.String(), 48))
			if sig, obs := verdict(f, e, got, pan); sig != "" {
				col.Report(sig, fmt.Sprintf("object: %s -> %s; Go (%s): %s", describe(f, a), ev.Clip(obs, 160), f.note, ev.Clip(e.String(), 160)),
					wcase{"W", "object", f.target(), toks(a)}, obs, e.String())
			}
			if (idx-j.lo)%stride == 0 {
				sc = append(sc, scall{f, a})
				scExp = append(scExp, e)
			}
		}
		if len(sc) == 0 {
			return
		}
		res, pan, src := runScriptBatch(sc)
		atomic.AddInt64(&scripts, 1)
		atomic.AddInt64(&scriptCalls, int64(len(sc)))
		r.Eval(len(sc))
		for i, c := range sc {
			if sig, obs := verdict(c.f, scExp[i], res[i], pan[i]); sig != "" {
				col.Report(sig, fmt.Sprintf("script: %s -> %s; Go (%s): %s", describe(c.f, c.a), ev.Clip(obs, 160), c.f.note, ev.Clip(scExp[i].String(), 160)),
					wcase{"W", "script", c.f.target(), toks(c.a)}, obs, scExp[i].String())
			}
		}
		if f.target() == "strings.replace_all" && j.lo == 0 {
			sampleOnce.Do(func() {
				r.Sample(map[string]any{"part": "W", "route": "script", "script_head": ev.Clip(src, 300), "calls_in_script": len(sc)})
			})
		}
	})
	// single-substitution sweep with wrong-typed arguments: every row, every arity, every position replaced by
	// each odd value, the other positions at their first pool value. Oracle: no Go panic (nothing else is claimed).
	odd := []val{vnil, vi(1), vf(0.5), vs("a"), vb([]byte("a")), vB(true), vl(vs("a")), vm("a", vi(1)), {K: 'E'}}
	var sweep [][2]any
	for _, f := range table {
		for n := f.min; n <= len(f.params); n++ {
			for pos := 0; pos < n; pos++ {
				if f.method && pos == 0 {
					continue // the receiver's type selects the method table
				}
				for _, o := range odd {
					a := append([]val{}, benign(f, n)...)
					a[pos] = o
					sweep = append(sweep, [2]any{f, a})
				}
			}
		}
		// one argument too many / too few
		if len(f.params) > 0 {
			a := append(append([]val{}, benign(f, len(f.params))...), vs("a"))
			sweep = append(sweep, [2]any{f, a})
			if f.min > 0 && !(f.method && f.min == 1) {
				sweep = append(sweep, [2]any{f, a[:f.min-1]})
			}
		}
	}
	ev.ParFor(len(sweep), func(i int) {
		f, a := sweep[i][0].(*fn), sweep[i][1].([]val)
		got, pan := callObject(f, a)
		r.Eval(1)
		if pan != "" {
			sig, obs := verdict(f, silent(), got, pan)
			col.Report(sig, fmt.Sprintf("object: %s -> %s (wrong-typed / wrong number of arguments)", describe(f, a), ev.Clip(obs, 160)), wcase{"W", "object", f.target(), toks(a)}, obs, "an error value")
			r.Outcome("sweep|" + f.target() + "|panic")
			return
		}
		r.Outcome("sweep|" + ev.Clip(canonObj(got), 8))
	})
	r.Set("wrong_type_sweep_calls", len(sweep))
	r.Set("wrapper_rows", len(table))
	r.Set("wrapper_tuples", total)
	r.Set("wrapper_tuples_by_group", perGroup)
	r.Set("script_calls", int(scriptCalls))
	r.Set("scripts", int(scripts))
	for _, t := range []struct {
		target string
		idx    int
	}{{"strings.last_index", 71}, {"math.pow", 40}, {"regexp.object.find_all", 301}, {"byte_slice.replace", 1301}, {"strconv.parse_int", 2000}, {"filepath.rel", 100}} {
		for _, f := range table {
			if f.target() == t.target && t.idx < tupleCount(f) {
				a := tuple(f, t.idx)
				got, pan := callObject(f, a)
				r.Sample(map[string]any{"part": "W", "call": describe(f, a), "risor": ev.Clip(canonObj(got)+pan, 120), "go": ev.Clip(f.gof(a).String(), 120)})
			}
		}
	}
}

// ---------------------------------------------------------------- replay

func replayOne(r *ev.Run, table []*fn, path string) {
	var head struct {
		Part string `json:"part"`
	}
	if err := ev.ReadReplay(path, &head); err != nil {
		r.EngineError("replay: " + err.Error())
		return
	}
	r.Outcome("replay")
	r.Outcome("replay2")
	if head.Part == "I1" || head.Part == "I2" {
		replayIndep(r, table, path)
		return
	}
	if head.Part != "W" {
		replayCodec(r, path)
		return
	}
	var c wcase
	if err := ev.ReadReplay(path, &c); err != nil {
		r.EngineError("replay: " + err.Error())
		return
	}
	table = append(table, jsonValidRow())
	var f *fn
	for _, x := range table {
		if x.target() == c.Target {
			f = x
		}
	}
	if f == nil {
		if name, ok := strings.CutPrefix(c.Target, "math."); ok {
			if want, ok := mathConsts[name]; ok {
				o, _ := sharedModules["math"].GetAttr(name)
				fmt.Printf("math.%s = %v; Go: %v\n", name, o, want)
				r.Eval(1)
				if canonObj(o) != canonGo(want) {
					col.Report("mismatch:"+c.Target, "constant differs", c, fmt.Sprint(o), fmt.Sprint(want))
				}
				return
			}
		}
		r.EngineError("replay: no table row for " + c.Target)
		return
	}
	a, err := parseToks(c.Args)
	if err != nil {
		r.EngineError("replay: " + err.Error())
		return
	}
	e := f.gof(a)
	var got object.Object
	var pan string
	if c.Route == "script" {
		res, p, src := runScriptBatch([]scall{{f, a}})
		got, pan = res[0], p[0]
		fmt.Printf("script: %s\n", ev.Clip(src, 400))
	} else {
		got, pan = callObject(f, a)
	}
	r.Eval(1)
	sig, obs := verdict(f, e, got, pan)
	fmt.Printf("%s via %s\n  risor: %s\n  Go (%s): %s\n  verdict: %s\n", describe(f, a), c.Route, ev.Clip(obs, 300), f.note, ev.Clip(e.String(), 300), map[bool]string{true: "agree", false: sig}[sig == ""])
	if sig != "" {
		col.Report(sig, fmt.Sprintf("%s -> %s; Go: %s", describe(f, a), ev.Clip(obs, 160), ev.Clip(e.String(), 160)), c, obs, e.String())
	}
}
