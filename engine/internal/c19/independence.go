package c19

import (
	"bytes"
	"fmt"
	"os"
	"strconv"
	"sync/atomic"
	"time"

	"github.com/risor-io/risor/builtins"
	"github.com/risor-io/risor/object"

	"verif/internal/ev"
)

// Part I: result independence - an earlier result is not changed by a later call.
//
//   I1 codecs   for every codec and every ORDERED pair (x, y) of its pool values:
//               e1 := encode(x); keep a deep copy of e1's bytes; e2 := encode(y);
//               (1) e1 still has the bytes of the copy, (2) decode(e1) == x, (3) decode(e2) == y;
//               d1 := decode(encode(x)); d2 := decode(encode(y)); d1 still prints the same and still == x.
//               Object API: all pairs; scripts: a stride of
//               `a := encode(x, c); b := encode(y, c); [decode(a, c), decode(b, c)]`.
//   I2 wrappers every table row whose result is a byte_slice, list or map: r1 := f(args1); snapshot r1.Inspect();
//               r2 := f(args2) for every tuple of a small pool; r1.Inspect() must equal the snapshot.
//
// A one-value-at-a-time round trip cannot see a pooled / reused output buffer; this part can.
// Nothing is allocated between the two calls beyond the small snapshot, and the GC is not invoked
// (a collection in between would empty a sync.Pool and hide the reuse).

type icase struct {
	Part   string   `json:"part"`  // "I1" | "I2"
	Route  string   `json:"route"` // object | script
	Codec  string   `json:"codec,omitempty"`
	X      string   `json:"x,omitempty"` // val tokens
	Y      string   `json:"y,omitempty"`
	Target string   `json:"target,omitempty"`
	Args1  []string `json:"args1,omitempty"`
	Args2  []string `json:"args2,omitempty"`
}

// subPool: ~12 values per codec incl. short and long inputs (quick tier).
func subPool(codec string) []val {
	if codec == "json" {
		return []val{vB(true), vi(1), vi(1<<53 + 1), vf(0.5), vs(""), vs("a"), vs(a300), vs("é"),
			vl(), vm(), vl(vi(1), vs("a")), vm("a", vi(1), "é", vs("x")), vl(vs(a300), vs(a300)), vm("a", vl(vi(1), vnil))}
	}
	return []val{vb(nil), vb([]byte("a")), vb([]byte("aXbXc")), vb([]byte{0xff}), vb([]byte(a300)), vb([]byte{0, 1, 0}),
		vs(""), vs("a"), vs("ab"), vs("é"), vs(a300), vs("a\x00b")}
}

func fullPool(codec string) []val {
	if codec == "json" {
		return jsonU
	}
	return append(append([]val{}, poolB...), poolS...)
}

// roundTripsAlone: the pair checks are only judged on values whose single round trip holds
// (the others are part C's business and already reported there).
func roundTripsAlone(codec string, x val) bool {
	if codec == "json" && (!jsonRepresentable(x) || x.K == 'n') {
		return false
	}
	o := observeObject(codec, x)
	return o.pan == "" && !o.encErr && !o.decErr && o.eq
}

func bytesOf(o object.Object) []byte {
	switch o := o.(type) {
	case *object.String:
		return []byte(o.Value())
	case *object.ByteSlice:
		return o.Value()
	}
	return nil
}

type pairFail struct{ sig, text, obs, exp string }

// pairObject runs the two-step sequence through the object API.
func pairObject(codec string, x, y val) (fails []pairFail) {
	name := object.NewString(codec)
	xo, yo := x.obj(), y.obj()
	defer func() {
		if p := recover(); p != nil {
			fails = append(fails, pairFail{"panic:codec-pair:" + codec, " -> Go panic " + ev.Clip(fmt.Sprint(p), 160), fmt.Sprint(p), "no panic"})
		}
	}()
	// ---- encode, encode, then look at the first result again
	e1 := builtins.Encode(bg, xo, name)
	if isErr(e1) {
		return nil
	}
	snap := append([]byte{}, bytesOf(e1)...)
	e2 := builtins.Encode(bg, yo, name)
	intact := bytes.Equal(bytesOf(e1), snap)
	if !intact {
		fails = append(fails, pairFail{"result-aliased:encode:" + codec,
			fmt.Sprintf(": e1 := encode(x); e2 := encode(y); e1 changed from %s to %s", qb(snap), qb(bytesOf(e1))), qb(bytesOf(e1)), qb(snap)})
	}
	d1 := builtins.Decode(bg, e1, name)
	if intact && (isErr(d1) || !eitherEqual(d1, xo)) {
		fails = append(fails, pairFail{"pair-roundtrip:" + codec,
			": e1 := encode(x); e2 := encode(y); decode(e1) = " + ev.Clip(canonObj(d1), 120) + errText(d1) + " is not x", canonObj(d1), "x"})
	}
	if !isErr(e2) {
		d2 := builtins.Decode(bg, e2, name)
		if isErr(d2) || !eitherEqual(d2, yo) {
			fails = append(fails, pairFail{"pair-roundtrip:" + codec,
				": e1 := encode(x); e2 := encode(y); decode(e2) = " + ev.Clip(canonObj(d2), 120) + errText(d2) + " is not y", canonObj(d2), "y"})
		}
	}
	// ---- decode, decode, then look at the first decoded value again
	dd1 := builtins.Decode(bg, builtins.Encode(bg, xo, name), name)
	if isErr(dd1) {
		return fails
	}
	snapIns := dd1.Inspect()
	ey := builtins.Encode(bg, yo, name)
	if !isErr(ey) {
		_ = builtins.Decode(bg, ey, name)
	}
	if now := dd1.Inspect(); now != snapIns || !eitherEqual(dd1, xo) {
		fails = append(fails, pairFail{"result-aliased:decode:" + codec,
			": d1 := decode(encode(x)); d2 := decode(encode(y)); d1 changed from " + ev.Clip(snapIns, 120) + " to " + ev.Clip(now, 120), ev.Clip(now, 200), ev.Clip(snapIns, 200)})
	}
	return fails
}

// argObject: encode(x), then decode the encoded bytes given as a byte_slice, twice; and encode a byte_slice
// argument. The argument objects must hold the same bytes afterwards and both decodes must give x.
func argObject(codec string, x val) (fails []pairFail) {
	name := object.NewString(codec)
	enc, pan := safeCall(func() object.Object { return builtins.Encode(bg, x.obj(), name) })
	if pan != "" || isErr(enc) {
		return nil
	}
	raw := append([]byte{}, bytesOf(enc)...)
	if bytesOf(enc) == nil {
		return nil
	}
	arg := object.NewByteSlice(append([]byte{}, raw...))
	d1, p1 := safeCall(func() object.Object { return builtins.Decode(bg, arg, name) })
	if !bytes.Equal(arg.Value(), raw) {
		fails = append(fails, pairFail{":decode", "decode changed its byte_slice argument", qb(arg.Value()), qb(raw)})
	}
	d2, p2 := safeCall(func() object.Object { return builtins.Decode(bg, arg, name) })
	if p1 != "" || p2 != "" || isErr(d1) != isErr(d2) || (!isErr(d1) && !eitherEqual(d1, d2)) {
		fails = append(fails, pairFail{":decode-twice", "decoding the same byte_slice twice gives two results", ev.Clip(fmt.Sprint(d2, p2), 80), ev.Clip(fmt.Sprint(d1, p1), 80)})
	}
	if !isErr(d1) && p1 == "" && !eitherEqual(d1, x.obj()) && codec != "json" {
		fails = append(fails, pairFail{":decode-of-byte_slice", "decode(byte_slice(encode(x))) != x", ev.Clip(d1.Inspect(), 80), ev.Clip(x.tok(), 80)})
	}
	if xb, ok := x.obj().(*object.ByteSlice); ok {
		keep := append([]byte{}, xb.Value()...)
		in := object.NewByteSlice(append([]byte{}, keep...))
		safeCall(func() object.Object { return builtins.Encode(bg, in, name) })
		if !bytes.Equal(in.Value(), keep) {
			fails = append(fails, pairFail{":encode", "encode changed its byte_slice argument", qb(in.Value()), qb(keep)})
		}
	}
	return fails
}

func qb(b []byte) string { return strconv.QuoteToASCII(ev.Clip(string(b), 80)) }

func pairScriptItem(codec, X, Y string) string {
	c := strconv.Quote(codec)
	return "try(func() { x := " + X + "; y := " + Y + "; a := encode(x, " + c + "); b := encode(y, " + c + "); da := decode(a, " + c + "); db := decode(b, " + c + "); " +
		"p := da == x; q := x == da; r := db == y; s := y == db; return [[p, q, r, s]] }, nil)"
}

// judgePairScript: res is [[p,q,r,s]] or an error.
func judgePairScript(codec string, res object.Object, pan string) (fails []pairFail) {
	if pan != "" {
		return []pairFail{{"panic:codec-pair:" + codec, " -> " + ev.Clip(pan, 160), pan, "no panic"}}
	}
	l, ok := res.(*object.List)
	if !ok || len(l.Value()) != 4 {
		return []pairFail{{"pair-roundtrip:" + codec, ": a := encode(x); b := encode(y); decode(a) / decode(b) raised an error: " + ev.Clip(errText(res), 120), "error", "x, y"}}
	}
	v := l.Value()
	if v[0] != object.True && v[1] != object.True {
		fails = append(fails, pairFail{"pair-roundtrip:" + codec, ": a := encode(x); b := encode(y); decode(a) != x", "not equal", "equal"})
	}
	if v[2] != object.True && v[3] != object.True {
		fails = append(fails, pairFail{"pair-roundtrip:" + codec, ": a := encode(x); b := encode(y); decode(b) != y", "not equal", "equal"})
	}
	return fails
}

func reportPair(route, codec string, x, y val, fails []pairFail) {
	rk := 1
	if route == "object" {
		rk = 0
	}
	for _, f := range fails {
		f := f
		col.Lazy(f.sig, rk, x.size()+y.size(), func() (string, any, string, string) {
			return fmt.Sprintf("%s: codec %s, x = %s, y = %s", route, codec, ev.Clip(x.tok(), 120), ev.Clip(y.tok(), 120)) + f.text,
				icase{Part: "I1", Route: route, Codec: codec, X: x.tok(), Y: y.tok()}, f.obs, f.exp
		})
	}
}

func partI(r *ev.Run, table []*fn) {
	t0 := time.Now()
	var nPairs, nScript, nWrap int64
	sizes := map[string]int{}
	for _, codec := range codecOrder {
		// 1. the sub-pool, sequentially on this goroutine (no migration between the two calls), both tiers
		sub := filterAlone(codec, subPool(codec))
		for _, x := range sub {
			for _, y := range sub {
				fails := pairObject(codec, x, y)
				reportPair("object", codec, x, y, fails)
				r.Outcome(fmt.Sprintf("I1|%s|%s|%s|%d", codec, class(x), class(y), len(fails)))
			}
		}
		// 1b. the arguments stay what they were: the encoded text handed to decode as a byte_slice (a string
		//     argument is copied on the way in, a byte_slice is not), decoded twice
		for _, x := range sub {
			for _, f := range argObject(codec, x) {
				col.Lazy("argument-changed:"+codec+f.sig, 0, len(f.text), func() (string, any, string, string) {
					return fmt.Sprintf("object: codec %s, x = %s: %s", codec, ev.Clip(x.tok(), 80), f.text), icase{Part: "I1b", Route: "object", Codec: codec, X: x.tok()}, f.obs, f.exp
				})
			}
			r.Outcome("I1b|" + codec + "|" + class(x))
		}
		r.Eval(len(sub))
		nPairs += int64(len(sub) * len(sub))
		r.Eval(len(sub) * len(sub))
		// 2. the bigger pool, all ordered pairs, in parallel. quick: whole pool for the byte codecs and urlquery,
		//    scalars + sub-pool for json; thorough: every json value of depth <= 1
		big := fullPool(codec)
		scriptStride := 3
		if codec == "json" && !r.Thorough() {
			big = append(append([]val{}, jsonD0...), subPool(codec)...)
		}
		if r.Thorough() {
			scriptStride = 1
			if codec == "json" {
				scriptStride = 64
			}
		}
		pool := filterAlone(codec, big)
		{
			ev.ParFor(len(pool), func(i int) {
				x := pool[i]
				local := map[string]struct{}{}
				for _, y := range pool {
					fails := pairObject(codec, x, y)
					reportPair("object", codec, x, y, fails)
					local[fmt.Sprintf("I1|%s|%s|%s|%d", codec, class(x), class(y), len(fails))] = struct{}{}
				}
				for k := range local {
					r.Outcome(k)
				}
				r.Eval(len(pool))
			})
			nPairs += int64(len(pool) * len(pool))
		}
		sizes[codec] = len(pool)
		// 3. scripts: a stride of the ordered pairs of the same pool
		type pr struct{ x, y val }
		var ps []pr
		for i, x := range pool {
			for j, y := range pool {
				if (i*len(pool)+j)%scriptStride == 0 {
					ps = append(ps, pr{x, y})
				}
			}
		}
		const per = 100
		nb := (len(ps) + per - 1) / per
		ev.ParFor(nb, func(b int) {
			lo, hi := b*per, (b+1)*per
			if hi > len(ps) {
				hi = len(ps)
			}
			batch := ps[lo:hi]
			res, pan := runItems(len(batch), func(gb *globalsBuilder, i int) string {
				return pairScriptItem(codec, scriptValueExpr(gb, batch[i].x, 2), scriptValueExpr(gb, batch[i].y, 2))
			})
			for i, p := range batch {
				reportPair("script", codec, p.x, p.y, judgePairScript(codec, res[i], pan[i]))
			}
			r.Eval(len(batch))
			atomic.AddInt64(&nScript, int64(len(batch)))
		})
	}
	r.Sample(map[string]any{"part": "I1", "codec": "gzip", "x": vs("a").tok(), "y": vs(a300[:20]).tok(), "failures": len(pairObject("gzip", vs("a"), vs(a300[:20])))})

	// ---- I2: wrappers whose result is a byte_slice, list or map
	k := 12
	if r.Thorough() {
		k = 60
	}
	var rows []string
	for _, f := range table {
		tuples := containerTuples(f, k)
		if len(tuples) < 2 {
			continue
		}
		rows = append(rows, f.target())
		f := f
		ev.ParFor(len(tuples), func(i int) {
			a1 := tuples[i]
			for _, a2 := range tuples {
				r1, p1 := callObject(f, a1)
				if p1 != "" || r1 == nil || isErr(r1) {
					continue
				}
				snap := r1.Inspect()
				_, _ = callObject(f, a2)
				if now := r1.Inspect(); now != snap {
					a2 := a2
					col.Lazy("result-aliased:"+f.target(), 0, len(snap), func() (string, any, string, string) {
						return fmt.Sprintf("object: r1 := %s; r2 := %s; r1 changed from %s to %s", describe(f, a1), describe(f, a2), ev.Clip(snap, 100), ev.Clip(now, 100)),
							icase{Part: "I2", Route: "object", Target: f.target(), Args1: toks(a1), Args2: toks(a2)}, ev.Clip(now, 200), ev.Clip(snap, 200)
					})
				}
			}
			r.Eval(len(tuples))
			atomic.AddInt64(&nWrap, int64(len(tuples)))
		})
		r.Outcome("I2|" + f.target())
	}
	// ---- I3: a caller that changes the container it got must not change what the next caller gets
	var nMut int64
	var rows3 []string
	for _, f := range table {
		tuples := containerTuples(f, k)
		tuples = append(tuples, emptyResultTuples(f, 2)...)
		if len(tuples) == 0 {
			continue
		}
		rows3 = append(rows3, f.target())
		// clean pass first: only tuples that agree with Go before anybody changed a result are judged
		var clean [][]val
		for _, a := range tuples {
			o, pan := callObject(f, a)
			if sig, _ := verdict(f, f.gof(a), o, pan); sig == "" && pan == "" && o != nil && !isErr(o) {
				clean = append(clean, a)
			}
		}
		for _, a1 := range clean {
			r1, _ := callObject(f, a1)
			if !mutateResult(r1) {
				continue
			}
			for _, a2 := range clean {
				r2, pan := callObject(f, a2)
				nMut++
				if sig, obs := verdict(f, f.gof(a2), r2, pan); sig != "" {
					a1, a2 := a1, a2
					col.Lazy("result-shared-with-later-call:"+f.target(), 0, len(obs), func() (string, any, string, string) {
						return fmt.Sprintf("object: r1 := %s; r1 is changed in place by its owner; then %s returns %s, Go says %s", describe(f, a1), describe(f, a2), ev.Clip(obs, 100), f.gof(a2)),
							icase{Part: "I3", Route: "object", Target: f.target(), Args1: toks(a1), Args2: toks(a2)}, ev.Clip(obs, 200), f.gof(a2).String()
					})
				}
			}
		}
		r.Eval(len(clean) * len(clean))
		r.Outcome("I3|" + f.target())
	}
	r.Set("independence_mutated_result_rows", rows3)
	r.Set("independence_mutated_result_pairs", int(nMut))
	r.Set("independence_codec_pool_sizes", sizes)
	r.Set("independence_codec_pairs_object", int(nPairs))
	r.Set("independence_codec_pairs_script", int(nScript))
	r.Set("independence_wrapper_rows", rows)
	r.Set("independence_wrapper_pairs", int(nWrap))
	if os.Getenv("VERIF_C19_TIMING") != "" {
		fmt.Fprintf(os.Stderr, "c19 timing: partI %.1fs\n", time.Since(t0).Seconds())
	}
}

func filterAlone(codec string, vals []val) []val {
	var out []val
	for _, v := range vals {
		if roundTripsAlone(codec, v) {
			out = append(out, v)
		}
	}
	return out
}

// containerTuples picks up to k argument tuples of f, spread evenly over its tuple space, on which the
// call succeeds with a byte_slice, list or map. Rows that never return such a value yield nothing.
func containerTuples(f *fn, k int) [][]val {
	n := tupleCount(f)
	if n == 0 {
		return nil
	}
	// probe: does this row ever return a container? (first defined tuple decides)
	probe := 0
	isContainer := false
	for idx := 0; idx < n && probe < 40; idx++ {
		a := tuple(f, idx)
		if f.gof(a).kind != 'v' {
			continue
		}
		probe++
		o, pan := callObject(f, a)
		if pan != "" || o == nil || isErr(o) {
			continue
		}
		switch o.(type) {
		case *object.ByteSlice, *object.List, *object.Map:
			isContainer = true
		}
		break
	}
	if !isContainer {
		return nil
	}
	// candidates spread evenly over the tuple space; results that print long enough to show a change come first
	step := n / (k * 6)
	if step < 1 {
		step = 1
	}
	var rich, poor [][]val
	for idx := 0; idx < n && len(rich) < k; idx += step {
		a := tuple(f, idx)
		o, pan := callObject(f, a)
		if pan != "" || o == nil || isErr(o) {
			continue
		}
		if len(o.Inspect()) >= 18 {
			rich = append(rich, a)
		} else if len(poor) < k {
			poor = append(poor, a)
		}
	}
	out := rich
	for _, a := range poor {
		if len(out) >= k {
			break
		}
		out = append(out, a)
	}
	return out
}

// emptyResultTuples finds up to k argument tuples on which f returns an empty list, map or byte_slice
// (the natural candidate for a shared "nothing found" value).
func emptyResultTuples(f *fn, k int) [][]val {
	n := tupleCount(f)
	var out [][]val
	for idx := 0; idx < n && idx < 4000 && len(out) < k; idx++ {
		a := tuple(f, idx)
		if f.gof(a).kind != 'v' {
			continue
		}
		o, pan := callObject(f, a)
		if pan != "" || o == nil {
			continue
		}
		switch o := o.(type) {
		case *object.List:
			if len(o.Value()) == 0 {
				out = append(out, a)
			}
		case *object.Map:
			if o.Size() == 0 {
				out = append(out, a)
			}
		case *object.ByteSlice:
			if len(o.Value()) == 0 {
				out = append(out, a)
			}
		}
	}
	return out
}

// mutateResult changes a container the way its owner may: append to a list, add a key to a map,
// flip the first byte of a byte_slice. Other results are left alone.
func mutateResult(o object.Object) bool {
	switch o := o.(type) {
	case *object.List:
		o.Append(object.NewString("<owner-added>"))
		return true
	case *object.Map:
		o.Set("<owner-added>", object.NewInt(1))
		return true
	case *object.ByteSlice:
		if v := o.Value(); len(v) > 0 {
			v[0] ^= 0xff
			return true
		}
	}
	return false
}

func replayIndep(r *ev.Run, table []*fn, path string) {
	var c icase
	if err := ev.ReadReplay(path, &c); err != nil {
		r.EngineError("replay: " + err.Error())
		return
	}
	r.Eval(1)
	switch c.Part {
	case "I1":
		x, err1 := parseTok(c.X)
		y, err2 := parseTok(c.Y)
		if err1 != nil || err2 != nil || codecSpecs[c.Codec] == nil {
			r.EngineError(fmt.Sprintf("replay: bad I1 case: %v %v codec %q", err1, err2, c.Codec))
			return
		}
		var fails []pairFail
		if c.Route == "script" {
			res, pan := runItems(1, func(gb *globalsBuilder, i int) string {
				return pairScriptItem(c.Codec, scriptValueExpr(gb, x, 2), scriptValueExpr(gb, y, 2))
			})
			fails = judgePairScript(c.Codec, res[0], pan[0])
		} else {
			// the reuse needs the same P for both calls; repeat a few times
			for i := 0; i < 20 && len(fails) == 0; i++ {
				fails = pairObject(c.Codec, x, y)
			}
		}
		fmt.Printf("codec %s via %s: x = %s, y = %s\n", c.Codec, c.Route, ev.Clip(x.tok(), 200), ev.Clip(y.tok(), 200))
		for _, f := range fails {
			fmt.Printf("  %s%s\n", f.sig, ev.Clip(f.text, 300))
		}
		if len(fails) == 0 {
			fmt.Println("  e1 intact, decode(e1) == x, decode(e2) == y, d1 intact")
		}
		reportPair(c.Route, c.Codec, x, y, fails)
	case "I2":
		var f *fn
		for _, t := range table {
			if t.target() == c.Target {
				f = t
			}
		}
		a1, err1 := parseToks(c.Args1)
		a2, err2 := parseToks(c.Args2)
		if f == nil || err1 != nil || err2 != nil {
			r.EngineError("replay: bad I2 case")
			return
		}
		r1, _ := callObject(f, a1)
		snap := r1.Inspect()
		_, _ = callObject(f, a2)
		now := r1.Inspect()
		fmt.Printf("r1 := %s = %s\nr2 := %s\nr1 afterwards: %s\n", describe(f, a1), ev.Clip(snap, 200), describe(f, a2), ev.Clip(now, 200))
		if now != snap {
			col.Report("result-aliased:"+f.target(), "r1 changed after a later call", c, now, snap)
		}
	case "I1b":
		x, err := parseTok(c.X)
		if err != nil || codecSpecs[c.Codec] == nil {
			r.EngineError("replay: bad I1b case")
			return
		}
		fs := argObject(c.Codec, x)
		fmt.Printf("codec %s, x = %s: %d failures\n", c.Codec, ev.Clip(x.tok(), 200), len(fs))
		for _, f := range fs {
			fmt.Printf("  %s: %s (observed %s, expected %s)\n", f.sig, f.text, f.obs, f.exp)
			col.Report("argument-changed:"+c.Codec+f.sig, f.text, c, f.obs, f.exp)
		}
	case "I3":
		var f *fn
		for _, t := range table {
			if t.target() == c.Target {
				f = t
			}
		}
		a1, err1 := parseToks(c.Args1)
		a2, err2 := parseToks(c.Args2)
		if f == nil || err1 != nil || err2 != nil {
			r.EngineError("replay: bad I3 case")
			return
		}
		r1, _ := callObject(f, a1)
		before := r1.Inspect()
		mutateResult(r1)
		r2, pan := callObject(f, a2)
		sig, obs := verdict(f, f.gof(a2), r2, pan)
		fmt.Printf("r1 := %s = %s, changed in place to %s\nthen %s = %s (Go: %s)\n", describe(f, a1), ev.Clip(before, 200), ev.Clip(r1.Inspect(), 200), describe(f, a2), ev.Clip(obs, 200), f.gof(a2))
		if sig != "" {
			col.Report("result-shared-with-later-call:"+f.target(), "a later call returns what an earlier caller changed", c, obs, f.gof(a2).String())
		}
	default:
		r.EngineError("replay: unknown part " + c.Part)
	}
}
