package c19

import (
	"fmt"
	"go/ast"
	"go/parser"
	"go/token"
	"path/filepath"
	"reflect"
	"sort"
	"strconv"

	"github.com/risor-io/risor/object"

	"verif/internal/ev"
)

// moduleAttrs lists the attribute names of a builtins module by reading the
// (unexported) map the live module object carries. Read-only reflection: keys
// of a map of strings can be read without touching the values.
func moduleAttrs(m *object.Module) (names []string, callable bool, err error) {
	defer func() {
		if p := recover(); p != nil {
			err = fmt.Errorf("cannot reflect on object.Module: %v", p)
		}
	}()
	v := reflect.ValueOf(m).Elem()
	b := v.FieldByName("builtins")
	if !b.IsValid() || b.Kind() != reflect.Map {
		return nil, false, fmt.Errorf("object.Module has no map field 'builtins' any more")
	}
	for _, k := range b.MapKeys() {
		names = append(names, k.String())
	}
	sort.Strings(names)
	c := v.FieldByName("callable")
	if !c.IsValid() {
		return nil, false, fmt.Errorf("object.Module has no field 'callable' any more")
	}
	return names, !c.IsNil(), nil
}

// methodNames reads the `case "...":` labels of the switch inside
// func (x *recv) GetAttr(name string) in a source file of the tree under test.
// Method tables are a Go switch, so the source is the only complete listing.
func methodNames(relFile, recv string) ([]string, error) {
	path := filepath.Join(ev.RepoDir, relFile)
	fset := token.NewFileSet()
	f, err := parser.ParseFile(fset, path, nil, 0)
	if err != nil {
		return nil, err
	}
	var out []string
	found := false
	for _, d := range f.Decls {
		fd, ok := d.(*ast.FuncDecl)
		if !ok || fd.Name.Name != "GetAttr" || fd.Recv == nil || len(fd.Recv.List) != 1 {
			continue
		}
		st, ok := fd.Recv.List[0].Type.(*ast.StarExpr)
		if !ok {
			continue
		}
		id, ok := st.X.(*ast.Ident)
		if !ok || id.Name != recv {
			continue
		}
		found = true
		ast.Inspect(fd.Body, func(n ast.Node) bool {
			sw, ok := n.(*ast.SwitchStmt)
			if !ok {
				return true
			}
			if tag, ok := sw.Tag.(*ast.Ident); !ok || tag.Name != "name" {
				return true
			}
			for _, c := range sw.Body.List {
				cc := c.(*ast.CaseClause)
				for _, e := range cc.List {
					if bl, ok := e.(*ast.BasicLit); ok && bl.Kind == token.STRING {
						s, err := strconv.Unquote(bl.Value)
						if err == nil {
							out = append(out, s)
						}
					}
				}
			}
			return false
		})
	}
	if !found {
		return nil, fmt.Errorf("%s: no method GetAttr on *%s", relFile, recv)
	}
	sort.Strings(out)
	return out, nil
}

// registeredCodecs reads the RegisterCodec("name", ...) calls of builtins/codecs.go.
func registeredCodecs() ([]string, error) {
	path := filepath.Join(ev.RepoDir, "builtins/codecs.go")
	fset := token.NewFileSet()
	f, err := parser.ParseFile(fset, path, nil, 0)
	if err != nil {
		return nil, err
	}
	var out []string
	ast.Inspect(f, func(n ast.Node) bool {
		c, ok := n.(*ast.CallExpr)
		if !ok {
			return true
		}
		id, ok := c.Fun.(*ast.Ident)
		if !ok || id.Name != "RegisterCodec" || len(c.Args) < 1 {
			return true
		}
		if bl, ok := c.Args[0].(*ast.BasicLit); ok && bl.Kind == token.STRING {
			if s, err := strconv.Unquote(bl.Value); err == nil {
				out = append(out, s)
			}
		}
		return true
	})
	sort.Strings(out)
	if len(out) == 0 {
		return nil, fmt.Errorf("no RegisterCodec call found in %s", path)
	}
	return out, nil
}
