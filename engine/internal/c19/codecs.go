package c19

import (
	"bytes"
	"compress/gzip"
	"encoding/base32"
	"encoding/base64"
	"encoding/hex"
	"encoding/json"
	"fmt"
	"io"
	"math"
	"net/url"
	"os"
	"strconv"
	"strings"
	"sync/atomic"
	"time"
	"unicode/utf8"

	"github.com/risor-io/risor/builtins"
	modjson "github.com/risor-io/risor/modules/json"
	"github.com/risor-io/risor/object"

	"verif/internal/ev"
)

// Part C: codecs.
//
//   C1 round trip   decode(encode(x)) == x by risor's own Equals, x over the value types the codec accepts:
//                   base64/base32/hex/gzip: byte_slice and string; urlquery: string and byte_slice;
//                   json: nil/bool/int/finite float/string and lists/maps (string keys) of those, depth <= 2.
//                   Also: encode output equals Go's encoder (byte codecs, urlquery) / is readable by Go's gzip reader.
//   C2 malformed    risor's decoder rejects exactly the inputs Go's decoder rejects, and agrees on the value otherwise.
//   C3 agreement    json codec vs json.marshal / json.unmarshal: same acceptance, same text, same value.

type codecSpec struct {
	goEncode  func(b []byte) (string, bool) // nil result check skipped when ok==false
	goDecode  func(b []byte) (any, error)
	malformed func(thorough bool) []string
}

var skippedCodecs = map[string]string{
	"csv": "not in the property's list of lossless codecs: every cell is turned into a string and a header row is invented for maps",
}

func gz(b []byte) []byte {
	var buf bytes.Buffer
	w := gzip.NewWriter(&buf)
	w.Write(b)
	w.Close()
	return buf.Bytes()
}

func gunzip(b []byte) ([]byte, error) {
	zr, err := gzip.NewReader(bytes.NewReader(b))
	if err != nil {
		return nil, err
	}
	return io.ReadAll(zr)
}

var baseMalformed = allStrings(alphaM, 4)

var codecSpecs = map[string]*codecSpec{
	"base64": {
		goEncode: func(b []byte) (string, bool) { return base64.StdEncoding.EncodeToString(b), true },
		goDecode: func(b []byte) (any, error) { return base64.StdEncoding.DecodeString(string(b)) },
		malformed: func(bool) []string {
			return append(append([]string{}, baseMalformed...), "YQ==", "YQ", "YWI=", "YWJj", "YQ==\n", "Y Q==", "YQ=", "YQ===", "YR==", "_-8=", "+/8=", "AAAAA", "AAAAAA==", "AAAA=")
		},
	},
	"base32": {
		goEncode: func(b []byte) (string, bool) { return base32.StdEncoding.EncodeToString(b), true },
		goDecode: func(b []byte) (any, error) { return base32.StdEncoding.DecodeString(string(b)) },
		malformed: func(thorough bool) []string {
			n := 6
			if thorough {
				n = 8
			}
			out := append(append([]string{}, baseMalformed...), allStrings([]string{"A", "7", "=", "!"}, n)...)
			return append(out, "ME======", "MFRA====", "MFRGG===", "MFRGGZA=", "MFRGGZDF", "me======", "ME=====", "ME", "ME======\n", "M1======", "AAAAAAAA", "AA======", "AAA=====", "A=======")
		},
	},
	"hex": {
		goEncode: func(b []byte) (string, bool) { return hex.EncodeToString(b), true },
		goDecode: func(b []byte) (any, error) { return hex.DecodeString(string(b)) },
		malformed: func(bool) []string {
			return append(append([]string{}, baseMalformed...), append(allStrings([]string{"a", "F", "0", "g", " "}, 4), "0x10", "ff ", "FFfe")...)
		},
	},
	"urlquery": {
		goEncode: func(b []byte) (string, bool) { return url.QueryEscape(string(b)), true },
		goDecode: func(b []byte) (any, error) { return url.QueryUnescape(string(b)) },
		malformed: func(bool) []string {
			return append(append([]string{}, baseMalformed...), append(allStrings([]string{"%", "4", "f", "G", "+"}, 4), "a+b", "%C3%A9", "%ff%", "%%34")...)
		},
	},
	"gzip": {
		goEncode: func(b []byte) (string, bool) { return "", false },
		goDecode: func(b []byte) (any, error) { return gunzip(b) },
		malformed: func(bool) []string {
			out := append([]string{}, baseMalformed...)
			valid := gz([]byte("aXbXc"))
			for i := 0; i <= len(valid); i++ {
				out = append(out, string(valid[:i]))
			}
			for i := range valid {
				for _, nb := range []byte{valid[i] ^ 0x01, valid[i] ^ 0xff, 0x00} {
					if nb == valid[i] {
						continue
					}
					m := append([]byte{}, valid...)
					m[i] = nb
					out = append(out, string(m))
				}
			}
			out = append(out, string(valid)+string(valid), string(valid)+"A", string(gz(nil)), "A"+string(valid))
			return out
		},
	},
	"json": {
		goEncode: func(b []byte) (string, bool) { return "", false },
		goDecode: func(b []byte) (any, error) {
			var v any
			err := json.Unmarshal(b, &v)
			return v, err
		},
		malformed: func(bool) []string { return jsonTexts },
	},
}

var codecOrder = []string{"base64", "base32", "hex", "gzip", "urlquery", "json"}

var jsonTexts = func() []string {
	out := append([]string{}, baseMalformed...)
	out = append(out, allStrings([]string{"[", "]", "{", "}", "\"", "1", ",", ":", "a", "-"}, 4)...)
	out = append(out, "null", "nul", "true", "false", "TRUE", " 1 ", "1.0", "-0", "1E2", "1e400", "01", "+1", ".5", "9223372036854775807", "9223372036854775808", "1e-400",
		"\"\\ud800\"", "\"\\u00e9\"", "\"\xff\"", "\"é\"", "\"a\x00b\"", "\"\\x41\"", "\"\t\"", "[1,2]", "[1,]", "{\"a\":1,\"a\":2}", "{\"a\":{\"b\":[null]}}", "{a:1}", "{\"a\":1,}",
		"\ufeff1", "[1] x", "[[[[1]]]]", "{\"\":\"\"}", "{\"\xff\":1}", "'a'", "NaN", "Infinity", "\"\\\"\"", "[null,true,false]", "1 2")
	return out
}()

func jsonValidRow() *fn {
	p := make([]val, len(jsonTexts))
	for i, s := range jsonTexts {
		p[i] = vs(s)
	}
	p = append(p, vb([]byte("[1]")), vb([]byte("[1")), vb(nil))
	return &fn{group: "json", name: "valid", params: [][]val{p}, min: 1, note: "json.Valid",
		gof: func(a []val) exp { return pure(func() any { return json.Valid(a[0].bytes()) }) }}
}

// ---------------------------------------------------------------- value classes

func walk(v val, f func(val, string)) {
	f(v, "")
	for i, x := range v.L {
		if v.K == 'm' {
			f(val{K: 's', S: v.MK[i]}, "key")
		}
		walk(x, f)
	}
}

func kindName(k byte) string {
	return map[byte]string{'s': "string", 'i': "int", 'f': "float", 'b': "byte_slice", 'B': "bool", 'n': "nil", 'l': "list", 'm': "map", 'E': "nil-backed-list"}[k]
}

// class gives the narrow structural predicate used in signatures.
func class(v val) string {
	var hasB, hasBadUTF, hasNonFinite, hasE bool
	walk(v, func(x val, _ string) {
		switch x.K {
		case 'b':
			hasB = true
		case 's':
			if !utf8.ValidString(x.S) {
				hasBadUTF = true
			}
		case 'f':
			if math.IsNaN(x.F) || math.IsInf(x.F, 0) {
				hasNonFinite = true
			}
		case 'E':
			hasE = true
		}
	})
	switch {
	case hasB:
		return "byte_slice"
	case hasBadUTF:
		return "invalid-utf8"
	case hasNonFinite:
		return "non-finite-float"
	case hasE:
		return "nil-backed-list"
	}
	return kindName(v.K)
}

// jsonRepresentable: the value domain on which the json round trip is judged.
func jsonRepresentable(v val) bool {
	ok := true
	walk(v, func(x val, _ string) {
		switch x.K {
		case 'b', 'E':
			ok = false
		case 'f':
			if math.IsNaN(x.F) || math.IsInf(x.F, 0) {
				ok = false
			}
		}
	})
	return ok
}

// ---------------------------------------------------------------- observations

// rtObs is what one route observed for one value and one codec.
type rtObs struct {
	encErr  bool
	enc     string // canonical rendering of the encoder output
	encRaw  []byte
	decErr  bool
	eq      bool // decoded == original or original == decoded
	pan     string
	modUsed bool
	mErr    bool
	m       string
	mDecErr bool
	mEq     bool
}

func safeCall(f func() object.Object) (o object.Object, pan string) {
	defer func() {
		if p := recover(); p != nil {
			o, pan = nil, fmt.Sprint(p)
		}
	}()
	return f(), ""
}

func isErr(o object.Object) bool { _, ok := o.(*object.Error); return ok }

func eitherEqual(a, b object.Object) bool {
	x, p1 := safeCall(func() object.Object { return a.Equals(b) })
	y, p2 := safeCall(func() object.Object { return b.Equals(a) })
	return (p1 == "" && x == object.True) || (p2 == "" && y == object.True)
}

func observeObject(codec string, x val) rtObs {
	var o rtObs
	name := object.NewString(codec)
	enc, pan := safeCall(func() object.Object { return builtins.Encode(bg, x.obj(), name) })
	if pan != "" {
		o.pan = "encode: " + pan
		return o
	}
	if isErr(enc) {
		o.encErr = true
	} else {
		o.enc = rawCanon(enc)
		o.encRaw, _ = object.AsBytes(enc)
		dec, pan := safeCall(func() object.Object { return builtins.Decode(bg, enc, name) })
		if pan != "" {
			o.pan = "decode: " + pan
			return o
		}
		if isErr(dec) {
			o.decErr = true
		} else {
			o.eq = eitherEqual(dec, x.obj())
		}
	}
	if codec != "json" {
		return o
	}
	o.modUsed = true
	m, pan := safeCall(func() object.Object { return modjson.Marshal(bg, x.obj()) })
	if pan != "" {
		o.pan = "json.marshal: " + pan
		return o
	}
	if isErr(m) {
		o.mErr = true
		return o
	}
	o.m = rawCanon(m)
	d, pan := safeCall(func() object.Object { return modjson.Unmarshal(bg, m) })
	if pan != "" {
		o.pan = "json.unmarshal: " + pan
		return o
	}
	if isErr(d) {
		o.mDecErr = true
	} else {
		o.mEq = eitherEqual(d, x.obj())
	}
	return o
}

// script items for one value expression X (see observeScript)
func rtItems(codec, X string) []string {
	c := strconv.Quote(codec)
	// one statement per call: an error raised while another call is pending inside the closure
	// leaves a stray slot on the VM stack on this tree (see the note at runItems)
	items := []string{
		"try(func() { e := encode(" + X + ", " + c + "); return [e] }, nil)",
		"try(func() { x := " + X + "; e := encode(x, " + c + "); y := decode(e, " + c + "); a := y == x; b := x == y; return [[a, b]] }, nil)",
	}
	if codec == "json" {
		items = append(items,
			"try(func() { m := json.marshal("+X+"); return [m] }, nil)",
			"try(func() { x := "+X+"; m := json.marshal(x); y := json.unmarshal(m); a := y == x; b := x == y; return [[a, b]] }, nil)")
	}
	return items
}

func boolPair(o object.Object) (bool, bool) {
	l, ok := o.(*object.List)
	if !ok || len(l.Value()) != 2 {
		return false, false
	}
	return l.Value()[0] == object.True || l.Value()[1] == object.True, true
}

// decodeRtItems turns the script results for rtItems back into an rtObs.
func decodeRtItems(codec string, res []object.Object, pan []string) rtObs {
	var o rtObs
	for _, p := range pan {
		if p != "" {
			o.pan = p
			return o
		}
	}
	if isErr(res[0]) {
		o.encErr = true
	} else {
		o.enc = rawCanon(res[0])
		if isErr(res[1]) {
			o.decErr = true
		} else {
			o.eq, _ = boolPair(res[1])
		}
	}
	if codec == "json" {
		o.modUsed = true
		if isErr(res[2]) {
			o.mErr = true
		} else {
			o.m = rawCanon(res[2])
			if isErr(res[3]) {
				o.mDecErr = true
			} else {
				o.mEq, _ = boolPair(res[3])
			}
		}
	}
	return o
}

type ccase struct {
	Part  string `json:"part"`  // "C1" round trip + agreement, "C2" malformed
	Route string `json:"route"` // object | script
	Codec string `json:"codec"`
	Value string `json:"value,omitempty"` // val token
	Input string `json:"input,omitempty"` // val token ('s' or 'b') of the text handed to the decoder
}

// judgeRT applies the oracles of C1 / C3(encode side) to one observation.
func judgeRT(r *ev.Run, route, codec string, x val, o rtObs) (outcome string) {
	cl := class(x)
	rk := 1
	if route == "object" {
		rk = 0
	}
	sz := x.size()
	// the witness text is built only if this case can become the smallest one for its signature
	rep := func(sig string, tail func() (text, observed, expected string)) {
		col.Lazy(sig, rk, sz, func() (string, any, string, string) {
			t, ob, ex := tail()
			return fmt.Sprintf("%s: codec %s, value %s", route, codec, ev.Clip(x.tok(), 200)) + t, ccase{"C1", route, codec, x.tok(), ""}, ob, ex
		})
	}
	if o.pan != "" {
		rep("panic:codec:"+codec+":"+cl, func() (string, string, string) {
			return " -> Go panic " + ev.Clip(o.pan, 160), o.pan, "an error value"
		})
		return cl + "|panic"
	}
	spec := codecSpecs[codec]
	accepted := codec != "json" || (jsonRepresentable(x) && x.K != 'n')
	switch {
	case o.encErr && accepted:
		rep("encode-rejects:"+codec+":"+cl, func() (string, string, string) {
			return ": encode() fails on a value of the codec's domain", "error", "encoded text"
		})
		outcome = "enc-rejected!"
	case o.encErr:
		outcome = "enc-rejected"
	default:
		if spec.goEncode != nil {
			if w, ok := spec.goEncode(x.bytes()); ok && o.enc != "string:"+w {
				rep("mismatch:encode:"+codec, func() (string, string, string) {
					return ": encode() = " + qc(o.enc) + ", Go's encoder gives " + qc("string:"+w), qc(o.enc), qc("string:" + w)
				})
			}
		}
		if codec == "gzip" && route == "object" {
			if b, err := gunzip(o.encRaw); err != nil || !bytes.Equal(b, x.bytes()) {
				rep("mismatch:encode:gzip", func() (string, string, string) {
					return ": Go's gzip reader does not give the input back", fmt.Sprintf("%x %v", b, err), fmt.Sprintf("%x", x.bytes())
				})
			}
		}
		switch {
		case o.decErr:
			rep("roundtrip:"+codec+":decode-error:"+cl, func() (string, string, string) { return ": decode(encode(x)) fails", "error", "x" })
			outcome = "dec-error"
		case !o.eq && (codec != "json" || jsonRepresentable(x)):
			rep("roundtrip:"+codec+":"+cl, func() (string, string, string) {
				return ": decode(encode(x)) != x by risor's Equals (encoded: " + qc(o.enc) + ")", "not equal", "equal"
			})
			outcome = "rt-differs"
		case !o.eq:
			outcome = "rt-differs-outside-domain"
		default:
			outcome = "rt-ok"
		}
	}
	outcome = cl + "|" + outcome
	if !o.modUsed {
		return outcome
	}
	// C3 encode side: the module and the codec must accept the same values and produce the same text
	switch {
	case o.mErr != o.encErr:
		rep("json-agree:encode:"+cl, func() (string, string, string) {
			return fmt.Sprintf(": encode(x,\"json\") %s but json.marshal(x) %s", okErr(o.encErr, o.enc), okErr(o.mErr, o.m)), okErr(o.encErr, o.enc), okErr(o.mErr, o.m)
		})
		outcome += "|agree-accept!"
	case !o.mErr && o.m != o.enc:
		rep("json-agree:encode:"+cl, func() (string, string, string) {
			return fmt.Sprintf(": encode(x,\"json\") = %s but json.marshal(x) = %s", qc(o.enc), qc(o.m)), qc(o.enc), qc(o.m)
		})
		outcome += "|agree-text!"
	default:
		outcome += "|agree"
	}
	if !o.mErr {
		switch {
		case o.mDecErr:
			rep("roundtrip:json.module:decode-error:"+cl, func() (string, string, string) {
				return ": json.unmarshal(json.marshal(x)) fails", "error", "x"
			})
		case !o.mEq && jsonRepresentable(x):
			rep("roundtrip:json.module:"+cl, func() (string, string, string) {
				return ": json.unmarshal(json.marshal(x)) != x (text " + qc(o.m) + ")", "not equal", "equal"
			})
		}
	}
	return outcome
}

// rawCanon is canonObj without quoting for strings (cheap; quoted only when shown).
func rawCanon(o object.Object) string {
	if s, ok := o.(*object.String); ok {
		return "string:" + s.Value()
	}
	return canonObj(o)
}

func qc(s string) string { return strconv.QuoteToASCII(ev.Clip(s, 120)) }

func okErr(isErr bool, s string) string {
	if isErr {
		return "fails"
	}
	return "gives " + qc(s)
}

// ---------------------------------------------------------------- generic script batch

const markerBase = 7000000

var batchesRerun int64

// runItems evaluates "[item, item, ...]" (each item is a try(...) expression that yields [v] or nil).
// build is called with a fresh globals builder and returns the items; on a whole-script failure
// every item is evaluated in its own script so that a panic is attributed to its item.
func runItems(n int, build func(gb *globalsBuilder, i int) string) (res []object.Object, pan []string) {
	res = make([]object.Object, n)
	pan = make([]string, n)
	gb := newGlobals()
	parts := make([]string, n)
	for i := 0; i < n; i++ {
		parts[i] = build(gb, i)
	}
	// Integer markers sit between the items. On this tree an error raised inside a closure run by try()
	// while a call is pending (e.g. len(len(nil))) leaves a stack slot behind, and the enclosing list
	// literal is then built from shifted slots; the markers detect any such shift and the batch is
	// re-run one item per script.
	for i := range parts {
		parts[i] = strconv.Itoa(markerBase+i) + ", " + parts[i]
	}
	out, err := evalScript("["+strings.Join(parts, ",\n")+"]", gb.g)
	if err == nil {
		if l, ok := out.(*object.List); ok && len(l.Value()) == 2*n {
			aligned := true
			for i := 0; i < n; i++ {
				m, ok := l.Value()[2*i].(*object.Int)
				if !ok || m.Value() != int64(markerBase+i) {
					aligned = false
					break
				}
			}
			if aligned {
				for i := 0; i < n; i++ {
					res[i] = unwrap1(l.Value()[2*i+1])
				}
				return
			}
		}
	}
	atomic.AddInt64(&batchesRerun, 1)
	for i := 0; i < n; i++ {
		gb := newGlobals()
		o, err := evalScript(build(gb, i), gb.g)
		switch {
		case err != nil && strings.Contains(err.Error(), "panic"):
			pan[i] = err.Error()
		case err != nil:
			res[i] = object.NewError(err)
		default:
			res[i] = unwrap1(o)
		}
	}
	return
}

// ---------------------------------------------------------------- the json value space

var jsonD0 = func() []val {
	out := []val{vnil, vB(true), vB(false)}
	out = append(out, poolI...)
	out = append(out, vi(1<<53+1)) // first int that float64 cannot hold
	out = append(out, poolF...)
	out = append(out, poolSJ...)
	return out
}()

// depth-1 containers: lists of length 0..2 and maps with keys {a} / {a, é} over D0, plus three odd keys
var jsonD1 = func() []val {
	out := []val{vl(), vm()}
	for _, a := range jsonD0 {
		out = append(out, vl(a), vm("a", a))
	}
	for _, a := range jsonD0 {
		for _, b := range jsonD0 {
			out = append(out, vl(a, b), vm("a", a, "é", b))
		}
	}
	for _, k := range []string{"", "a\x00b", "\xff", "<&>"} {
		for _, a := range []val{vi(1), vs("é"), vnil} {
			out = append(out, vm(k, a))
		}
	}
	return out
}()

var jsonU = append(append([]val{}, jsonD0...), jsonD1...)

// values used only for the agreement check / acceptance (outside the round-trip domain)
var jsonExtras = []val{vb([]byte("a")), vb(nil), vb([]byte{0xff}), vl(vb([]byte("a"))), vm("a", vb([]byte("ab"))), {K: 'E'}, vl(val{K: 'E'}), vm("a", val{K: 'E'})}

// scriptValueExpr renders a value as a script expression: containers are literals, leaves are globals.
func scriptValueExpr(gb *globalsBuilder, v val, depth int) string {
	if depth > 0 {
		switch v.K {
		case 'l':
			parts := make([]string, len(v.L))
			for i, x := range v.L {
				parts[i] = scriptValueExpr(gb, x, depth-1)
			}
			return "[" + strings.Join(parts, ", ") + "]"
		case 'm':
			if len(v.L) == 0 {
				return "{}"
			}
			ok := true
			for _, k := range v.MK {
				if !utf8.ValidString(k) || strings.ContainsAny(k, "\x00\\\"") {
					ok = false
				}
			}
			if ok {
				parts := make([]string, len(v.L))
				for i, x := range v.L {
					parts[i] = "\"" + v.MK[i] + "\": " + scriptValueExpr(gb, x, depth-1)
				}
				return "{" + strings.Join(parts, ", ") + "}"
			}
		}
	}
	return gb.name(v)
}

// ---------------------------------------------------------------- part C driver

func partC(r *ev.Run, stride int) {
	t0 := time.Now()
	lap := func(what string) {
		if os.Getenv("VERIF_C19_TIMING") != "" {
			fmt.Fprintf(os.Stderr, "c19 timing: %s %.1fs\n", what, time.Since(t0).Seconds())
		}
		t0 = time.Now()
	}
	var nRT, nMal, nAgree, nScript int64
	// ---- C1 over the byte codecs and urlquery
	byteVals := append(append([]val{}, poolB...), poolS...)
	// every single byte as a one-byte string, alone and between two letters (what a codec escapes, and what it
	// leaves alone, is decided per byte: a fast path for "nothing to escape" is a set of bytes), and a few texts
	// made of bytes that only some encoders leave alone
	for b := 0; b < 256; b++ {
		byteVals = append(byteVals, vs(string([]byte{byte(b)})), vs("a"+string([]byte{byte(b)})+"z"))
	}
	for _, t := range []string{"1+1", "C++", "+49.170.1234567", "a b+c", "~-._", "%41", "a%2Bb", "a=b&c=d", "x;y", "*!'()"} {
		byteVals = append(byteVals, vs(t))
	}
	for _, codec := range []string{"base64", "base32", "hex", "gzip", "urlquery"} {
		for _, x := range byteVals {
			o := observeObject(codec, x)
			r.Outcome("C1|" + codec + "|" + judgeRT(r, "object", codec, x, o))
		}
		n := len(byteVals)
		res, pan := runItems(2*n, func(gb *globalsBuilder, i int) string {
			return rtItems(codec, gb.name(byteVals[i/2]))[i%2]
		})
		for i, x := range byteVals {
			o := decodeRtItems(codec, res[2*i:2*i+2], pan[2*i:2*i+2])
			r.Outcome("C1|" + codec + "|" + judgeRT(r, "script", codec, x, o))
		}
		r.Eval(2 * n)
		nRT += int64(2 * n)
		nScript += int64(n)
	}
	r.Sample(map[string]any{"part": "C1", "codec": "hex", "value": byteVals[4].tok(), "observed": observeObject("hex", byteVals[4]).enc})

	lap("bytecodecs")
	// ---- C1 + C3(encode side) for json: depth 0, 1 and extras - object route all, script route all
	small := append(append([]val{}, jsonU...), jsonExtras...)
	ev.ParFor(len(small), func(i int) {
		x := small[i]
		o := observeObject("json", x)
		r.Outcome("C1|json|" + judgeRT(r, "object", "json", x, o))
	})
	r.Eval(len(small))
	nRT += int64(len(small))
	const per = 40 // values per script (4 items each)
	nb := (len(small) + per - 1) / per
	ev.ParFor(nb, func(b int) {
		lo, hi := b*per, (b+1)*per
		if hi > len(small) {
			hi = len(small)
		}
		vals := small[lo:hi]
		res, pan := runItems(4*len(vals), func(gb *globalsBuilder, i int) string {
			return rtItems("json", scriptValueExpr(gb, vals[i/4], 2))[i%4]
		})
		for i, x := range vals {
			o := decodeRtItems("json", res[4*i:4*i+4], pan[4*i:4*i+4])
			r.Outcome("C1|json|" + judgeRT(r, "script", "json", x, o))
		}
		r.Eval(len(vals))
		atomic.AddInt64(&nScript, int64(len(vals)))
	})
	nRT += int64(len(small))

	lap("json d<=1")
	// ---- json depth 2: [c], {"a": c} for every c in U (both tiers); [c, d], {"a": c, "é": d} for all pairs (thorough)
	U := jsonU
	wide := r.Thorough()
	scriptStride := 5
	if wide {
		scriptStride = 16
	}
	ev.ParFor(len(U), func(ci int) {
		c := U[ci]
		local := map[string]struct{}{}
		cnt := 0
		var forScript []val
		do := func(x val, k int) {
			o := observeObject("json", x)
			local["C1|json|d2|"+judgeRT(r, "object", "json", x, o)] = struct{}{}
			cnt++
			if (ci+k)%scriptStride == 0 {
				forScript = append(forScript, x)
			}
		}
		do(vl(c), 0)
		do(vm("a", c), 1)
		second := jsonD0 // quick: second element over the scalars only
		if wide {
			second = U
		}
		for di, d := range second {
			do(vl(c, d), di)
			do(vm("a", c, "é", d), di+1)
		}
		for lo := 0; lo < len(forScript); lo += per {
			hi := lo + per
			if hi > len(forScript) {
				hi = len(forScript)
			}
			vals := forScript[lo:hi]
			res, pan := runItems(4*len(vals), func(gb *globalsBuilder, i int) string {
				return rtItems("json", scriptValueExpr(gb, vals[i/4], 1))[i%4]
			})
			for i, x := range vals {
				o := decodeRtItems("json", res[4*i:4*i+4], pan[4*i:4*i+4])
				local["C1|json|d2|"+judgeRT(r, "script", "json", x, o)] = struct{}{}
			}
			cnt += len(vals)
			atomic.AddInt64(&nScript, int64(len(vals)))
		}
		for k := range local {
			r.Outcome(k)
		}
		r.Eval(cnt)
		atomic.AddInt64(&nRT, int64(cnt))
	})
	r.Set("json_values_depth_le1", len(jsonU))
	// informational: ints that come back as a float which is risor-equal to the original but is not the same integer
	var inexact []string
	for _, x := range jsonD0 {
		if x.K != 'i' {
			continue
		}
		enc := builtins.Encode(bg, x.obj(), object.NewString("json"))
		dec := builtins.Decode(bg, enc, object.NewString("json"))
		if f, ok := dec.(*object.Float); ok && (f.Value() >= 9.3e18 || f.Value() <= -9.3e18 || int64(f.Value()) != x.I) {
			inexact = append(inexact, fmt.Sprintf("%d -> %s (risor == original: %v)", x.I, strconv.FormatFloat(f.Value(), 'g', -1, 64), eitherEqual(dec, x.obj())))
		}
	}
	r.Set("json_ints_not_restored_exactly_but_equal_by_risor", inexact)
	sx := vm("a", vl(vi(math.MaxInt64), vf(0.5)), "é", vs("é<"))
	r.Sample(map[string]any{"part": "C1", "codec": "json", "value": sx.tok(), "encoded": observeObject("json", sx).enc, "decoded_equals_original": observeObject("json", sx).eq})

	lap("json d2")
	// ---- json.marshal with an indent argument: unmarshal(marshal(x, indent)) == x
	for _, indent := range []string{"", "  ", "\t"} {
		ev.ParFor(len(jsonU), func(i int) {
			x := jsonU[i]
			if !jsonRepresentable(x) {
				return
			}
			m, pan := safeCall(func() object.Object { return modjson.Marshal(bg, x.obj(), object.NewString(indent)) })
			if pan != "" || isErr(m) {
				col.Report("encode-rejects:json.module:indent", fmt.Sprintf("json.marshal(%s, %q) fails: %s%s", ev.Clip(x.tok(), 160), indent, pan, errText(m)), ccase{"C1", "object", "json", x.tok(), ""}, "error", "text")
				return
			}
			var want bytes.Buffer
			compact, _ := object.AsString(modjson.Marshal(bg, x.obj()))
			json.Indent(&want, []byte(compact), "", indent)
			got, _ := object.AsString(m)
			if got != want.String() {
				col.Report("mismatch:json.marshal:indent", fmt.Sprintf("json.marshal(%s, %q) = %q; json.Indent of the compact form = %q", ev.Clip(x.tok(), 120), indent, ev.Clip(got, 120), ev.Clip(want.String(), 120)), ccase{"C1", "object", "json", x.tok(), ""}, got, want.String())
			}
			r.Outcome("C1|json.indent|" + class(x))
		})
		r.Eval(len(jsonU))
		nRT += int64(len(jsonU))
	}

	lap("indent")
	// ---- C2 malformed inputs (+ C3 decode side for json)
	for _, codec := range codecOrder {
		spec := codecSpecs[codec]
		texts := spec.malformed(r.Thorough())
		name := object.NewString(codec)
		var accepted, rejected int64
		const chunk = 100
		nchunks := (len(texts) + chunk - 1) / chunk
		ev.ParFor(nchunks, func(ch int) {
			lo, hi := ch*chunk, (ch+1)*chunk
			if hi > len(texts) {
				hi = len(texts)
			}
			var sIn []val
			var sWant []exp
			for ti := lo; ti < hi; ti++ {
				t := texts[ti]
				gv, gerr := spec.goDecode([]byte(t))
				e := want(gv)
				if gerr != nil {
					e = wantErr()
					atomic.AddInt64(&rejected, 1)
				} else {
					atomic.AddInt64(&accepted, 1)
				}
				for k, in := range []val{vs(t), vb([]byte(t))} {
					got, pan := safeCall(func() object.Object { return builtins.Decode(bg, in.obj(), name) })
					judgeMalformed(r, "object", codec, in, e, got, pan)
					if (ti+k)%stride == 0 {
						sIn = append(sIn, in)
						sWant = append(sWant, e)
					}
					if codec == "json" {
						got2, pan2 := safeCall(func() object.Object { return modjson.Unmarshal(bg, in.obj()) })
						judgeAgreeDecode(r, "object", in, got, pan, got2, pan2)
					}
				}
			}
			r.Eval(2 * (hi - lo))
			atomic.AddInt64(&nMal, int64(2*(hi-lo)))
			if len(sIn) == 0 {
				return
			}
			k := 1
			if codec == "json" {
				k = 2
			}
			res, pan := runItems(k*len(sIn), func(gb *globalsBuilder, i int) string {
				g := gb.name(sIn[i/k])
				if i%k == 1 {
					return "try(func() { v := json.unmarshal(" + g + "); return [v] }, nil)"
				}
				return "try(func() { v := decode(" + g + ", " + strconv.Quote(codec) + "); return [v] }, nil)"
			})
			for i, in := range sIn {
				judgeMalformed(r, "script", codec, in, sWant[i], res[k*i], pan[k*i])
				if k == 2 {
					judgeAgreeDecode(r, "script", in, res[2*i], pan[2*i], res[2*i+1], pan[2*i+1])
					atomic.AddInt64(&nAgree, 1)
				}
			}
			r.Eval(len(sIn))
			atomic.AddInt64(&nScript, int64(len(sIn)))
		})
		r.Set("malformed_"+codec, map[string]int{"inputs": len(texts), "go_accepts": int(accepted), "go_rejects": int(rejected)})
		if accepted == 0 || rejected == 0 {
			r.EngineError("malformed set for " + codec + " is one-sided (Go accepts " + fmt.Sprint(accepted) + ", rejects " + fmt.Sprint(rejected) + ")")
		}
	}
	lap("malformed")
	r.Sample(map[string]any{"part": "C2", "codec": "base64", "input": vs("AA=!").tok(), "go": "rejects"})
	r.Set("roundtrip_cases", int(nRT))
	r.Set("malformed_cases", int(nMal))
	r.Set("codec_script_cases", int(nScript))
	r.Set("script_batches_rerun_item_by_item", int(atomic.LoadInt64(&batchesRerun)))
	_ = nAgree
}

func judgeMalformed(r *ev.Run, route, codec string, in val, e exp, got object.Object, pan string) {
	cs := ccase{"C2", route, codec, "", in.tok()}
	desc := fmt.Sprintf("%s: decode(%s, %q)", route, ev.Clip(in.tok(), 160), codec)
	if pan != "" {
		col.Report("panic:decode:"+codec, desc+" -> Go panic "+ev.Clip(pan, 160), cs, pan, e.String())
		r.Outcome("C2|" + codec + "|panic")
		return
	}
	c := canonObj(got)
	switch {
	case e.kind == 'e' && c != "ERR":
		col.Report("accepts-malformed:"+codec, desc+" = "+ev.Clip(c, 120)+" but Go's decoder rejects this input", cs, c, "error")
		r.Outcome("C2|" + codec + "|accepts-malformed")
	case e.kind == 'e':
		r.Outcome("C2|" + codec + "|rejected")
	case c == "ERR":
		col.Report("rejects-valid:"+codec, desc+" fails ("+ev.Clip(errText(got), 100)+") but Go's decoder accepts this input: "+ev.Clip(e.String(), 120), cs, "error", e.String())
		r.Outcome("C2|" + codec + "|rejects-valid")
	case c != e.alts[0]:
		col.Report("mismatch:decode:"+codec, desc+" = "+ev.Clip(c, 120)+", Go's decoder gives "+ev.Clip(e.String(), 120), cs, c, e.String())
		r.Outcome("C2|" + codec + "|value-differs")
	default:
		r.Outcome("C2|" + codec + "|" + ev.Clip(c, 40))
	}
}

// judgeAgreeDecode: C3 decode side - decode(t, "json") and json.unmarshal(t) accept the same texts and give the same value.
func judgeAgreeDecode(r *ev.Run, route string, in val, a object.Object, pa string, b object.Object, pb string) {
	cs := ccase{"C2", route, "json", "", in.tok()}
	if pb != "" {
		col.Report("panic:json.unmarshal", fmt.Sprintf("%s: json.unmarshal(%s) -> Go panic %s", route, ev.Clip(in.tok(), 160), ev.Clip(pb, 160)), cs, pb, "")
		return
	}
	if pa != "" {
		return // reported by judgeMalformed
	}
	ca, cb := canonObj(a), canonObj(b)
	if ca != cb {
		col.Report("json-agree:decode", fmt.Sprintf("%s: decode(%s, \"json\") = %s but json.unmarshal = %s", route, ev.Clip(in.tok(), 160), ev.Clip(ca, 120), ev.Clip(cb, 120)), cs, ca, cb)
		r.Outcome("C3|decode|differs")
		return
	}
	r.Outcome("C3|decode|agree")
}

// ---------------------------------------------------------------- replay

func replayCodec(r *ev.Run, path string) {
	var c ccase
	if err := ev.ReadReplay(path, &c); err != nil {
		r.EngineError("replay: " + err.Error())
		return
	}
	if _, ok := codecSpecs[c.Codec]; !ok {
		r.EngineError("replay: unknown codec " + c.Codec)
		return
	}
	r.Eval(1)
	switch c.Part {
	case "C1":
		x, err := parseTok(c.Value)
		if err != nil {
			r.EngineError("replay: " + err.Error())
			return
		}
		var o rtObs
		if c.Route == "script" {
			k := len(rtItems(c.Codec, "x"))
			res, pan := runItems(k, func(gb *globalsBuilder, i int) string { return rtItems(c.Codec, scriptValueExpr(gb, x, 2))[i] })
			o = decodeRtItems(c.Codec, res, pan)
		} else {
			o = observeObject(c.Codec, x)
		}
		fmt.Printf("codec %s via %s, value %s\n  encode: %s\n  decode error: %v  equal to original: %v\n", c.Codec, c.Route, ev.Clip(x.tok(), 300), okErr(o.encErr, o.enc), o.decErr, o.eq)
		if o.modUsed {
			fmt.Printf("  json.marshal: %s\n  unmarshal error: %v  equal to original: %v\n", okErr(o.mErr, o.m), o.mDecErr, o.mEq)
		}
		if o.pan != "" {
			fmt.Printf("  Go panic: %s\n", ev.Clip(o.pan, 300))
		}
		fmt.Printf("  outcome: %s\n", judgeRT(r, c.Route, c.Codec, x, o))
	case "C2":
		in, err := parseTok(c.Input)
		if err != nil {
			r.EngineError("replay: " + err.Error())
			return
		}
		spec := codecSpecs[c.Codec]
		gv, gerr := spec.goDecode(in.bytes())
		e := want(gv)
		if gerr != nil {
			e = wantErr()
		}
		var got, got2 object.Object
		var pan, pan2 string
		if c.Route == "script" {
			res, p := runItems(2, func(gb *globalsBuilder, i int) string {
				g := gb.name(in)
				if i == 1 {
					return "try(func() { v := json.unmarshal(" + g + "); return [v] }, nil)"
				}
				return "try(func() { v := decode(" + g + ", " + strconv.Quote(c.Codec) + "); return [v] }, nil)"
			})
			got, pan, got2, pan2 = res[0], p[0], res[1], p[1]
		} else {
			got, pan = safeCall(func() object.Object { return builtins.Decode(bg, in.obj(), object.NewString(c.Codec)) })
			got2, pan2 = safeCall(func() object.Object { return modjson.Unmarshal(bg, in.obj()) })
		}
		fmt.Printf("decode(%s, %q) via %s\n  risor: %s %s %s\n  Go: %s (err: %v)\n", ev.Clip(in.tok(), 300), c.Codec, c.Route, ev.Clip(canonObj(got), 300), ev.Clip(errText(got), 200), pan, ev.Clip(e.String(), 300), gerr)
		judgeMalformed(r, c.Route, c.Codec, in, e, got, pan)
		if c.Codec == "json" {
			fmt.Printf("  json.unmarshal: %s %s\n", ev.Clip(canonObj(got2), 300), pan2)
			judgeAgreeDecode(r, c.Route, in, got, pan, got2, pan2)
		}
	default:
		r.EngineError("replay: unknown part " + c.Part)
	}
}
