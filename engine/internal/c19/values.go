package c19

import (
	"encoding/hex"
	"fmt"
	"math"
	"regexp"
	"sort"
	"strconv"
	"strings"

	"github.com/risor-io/risor/object"
)

// val is a harness-side value: what is handed to risor (as a fresh object) and
// to the Go closure (as a Go value). It serialises to a JSON-safe token.
type val struct {
	K  byte // 's' string, 'i' int, 'f' float, 'b' byte_slice, 'B' bool, 'n' nil, 'l' list, 'm' map, 'E' list with nil backing slice
	S  string
	I  int64
	F  float64
	By []byte
	Bo bool
	L  []val
	MK []string // map keys (sorted), values in L
}

func vs(s string) val  { return val{K: 's', S: s} }
func vi(i int64) val   { return val{K: 'i', I: i} }
func vf(f float64) val { return val{K: 'f', F: f} }
func vb(b []byte) val  { return val{K: 'b', By: b} }
func vB(b bool) val    { return val{K: 'B', Bo: b} }
func vl(l ...val) val  { return val{K: 'l', L: l} }
func vsl(l ...string) val {
	out := make([]val, len(l))
	for i, s := range l {
		out[i] = vs(s)
	}
	return val{K: 'l', L: out}
}

var vnil = val{K: 'n'}

func vm(kv ...any) val { // vm("a", v, "b", w)
	type p struct {
		k string
		v val
	}
	var ps []p
	for i := 0; i+1 < len(kv); i += 2 {
		ps = append(ps, p{kv[i].(string), kv[i+1].(val)})
	}
	sort.Slice(ps, func(i, j int) bool { return ps[i].k < ps[j].k })
	out := val{K: 'm'}
	for _, x := range ps {
		out.MK = append(out.MK, x.k)
		out.L = append(out.L, x.v)
	}
	return out
}

// obj builds a fresh risor object.
func (v val) obj() object.Object {
	switch v.K {
	case 's':
		return object.NewString(v.S)
	case 'i':
		return object.NewInt(v.I)
	case 'f':
		return object.NewFloat(v.F)
	case 'b':
		return object.NewByteSlice(append([]byte{}, v.By...))
	case 'B':
		return object.NewBool(v.Bo)
	case 'n':
		return object.Nil
	case 'E':
		return object.NewList(nil)
	case 'l':
		items := make([]object.Object, len(v.L))
		for i, x := range v.L {
			items[i] = x.obj()
		}
		return object.NewList(items)
	case 'm':
		m := make(map[string]object.Object, len(v.L))
		for i, k := range v.MK {
			m[k] = v.L[i].obj()
		}
		return object.NewMap(m)
	}
	panic("bad val kind")
}

// tok is the replay / display form (JSON-safe: strings are Go-quoted ASCII).
func (v val) tok() string {
	switch v.K {
	case 's':
		return "s:" + strconv.QuoteToASCII(v.S)
	case 'i':
		return "i:" + strconv.FormatInt(v.I, 10)
	case 'f':
		return fmt.Sprintf("f:%016x(%v)", math.Float64bits(v.F), v.F)
	case 'b':
		return "b:" + hex.EncodeToString(v.By)
	case 'B':
		return "B:" + strconv.FormatBool(v.Bo)
	case 'n':
		return "n:"
	case 'E':
		return "E:"
	case 'l':
		parts := make([]string, len(v.L))
		for i, x := range v.L {
			parts[i] = x.tok()
		}
		return "l:[" + strings.Join(parts, " , ") + "]"
	case 'm':
		parts := make([]string, len(v.L))
		for i, x := range v.L {
			parts[i] = strconv.QuoteToASCII(v.MK[i]) + " => " + x.tok()
		}
		return "m:{" + strings.Join(parts, " , ") + "}"
	}
	return "?"
}

// parseTok inverts tok.
func parseTok(s string) (val, error) {
	v, rest, err := parseTokP(s)
	if err != nil {
		return v, err
	}
	if strings.TrimSpace(rest) != "" {
		return v, fmt.Errorf("trailing %q", rest)
	}
	return v, nil
}

func parseQuoted(s string) (string, string, error) {
	if len(s) == 0 || s[0] != '"' {
		return "", s, fmt.Errorf("expected quote at %q", s)
	}
	for i := 1; i < len(s); i++ {
		if s[i] == '\\' {
			i++
			continue
		}
		if s[i] == '"' {
			u, err := strconv.Unquote(s[:i+1])
			return u, s[i+1:], err
		}
	}
	return "", s, fmt.Errorf("unterminated string")
}

func parseTokP(s string) (val, string, error) {
	s = strings.TrimLeft(s, " ")
	if len(s) < 2 || s[1] != ':' {
		return val{}, s, fmt.Errorf("bad token %q", s)
	}
	k, body := s[0], s[2:]
	end := func() (string, string) { // scalar body ends at " ," or "]" or "}" or end
		i := strings.IndexAny(body, " ]}")
		if i < 0 {
			return body, ""
		}
		return body[:i], body[i:]
	}
	switch k {
	case 's':
		u, rest, err := parseQuoted(body)
		return vs(u), rest, err
	case 'i':
		w, rest := end()
		n, err := strconv.ParseInt(w, 10, 64)
		return vi(n), rest, err
	case 'f':
		w, rest := end()
		if i := strings.IndexByte(w, '('); i >= 0 {
			w = w[:i]
		}
		n, err := strconv.ParseUint(w, 16, 64)
		return vf(math.Float64frombits(n)), rest, err
	case 'b':
		w, rest := end()
		b, err := hex.DecodeString(w)
		return vb(b), rest, err
	case 'B':
		w, rest := end()
		return vB(w == "true"), rest, nil
	case 'n':
		return vnil, body, nil
	case 'E':
		return val{K: 'E'}, body, nil
	case 'l':
		if !strings.HasPrefix(body, "[") {
			return val{}, s, fmt.Errorf("bad list")
		}
		body = body[1:]
		out := val{K: 'l'}
		for {
			body = strings.TrimLeft(body, " ")
			if strings.HasPrefix(body, "]") {
				return out, body[1:], nil
			}
			if strings.HasPrefix(body, ",") {
				body = body[1:]
				continue
			}
			x, rest, err := parseTokP(body)
			if err != nil {
				return out, rest, err
			}
			out.L = append(out.L, x)
			body = rest
		}
	case 'm':
		if !strings.HasPrefix(body, "{") {
			return val{}, s, fmt.Errorf("bad map")
		}
		body = body[1:]
		out := val{K: 'm'}
		for {
			body = strings.TrimLeft(body, " ")
			if strings.HasPrefix(body, "}") {
				return out, body[1:], nil
			}
			if strings.HasPrefix(body, ",") {
				body = body[1:]
				continue
			}
			key, rest, err := parseQuoted(body)
			if err != nil {
				return out, rest, err
			}
			rest = strings.TrimLeft(rest, " ")
			rest = strings.TrimPrefix(rest, "=>")
			x, rest2, err := parseTokP(rest)
			if err != nil {
				return out, rest2, err
			}
			out.MK = append(out.MK, key)
			out.L = append(out.L, x)
			body = rest2
		}
	}
	return val{}, s, fmt.Errorf("unknown kind %q", k)
}

func toks(a []val) []string {
	out := make([]string, len(a))
	for i, v := range a {
		out[i] = v.tok()
	}
	return out
}

func parseToks(t []string) ([]val, error) {
	out := make([]val, len(t))
	for i, s := range t {
		v, err := parseTok(s)
		if err != nil {
			return nil, fmt.Errorf("arg %d: %v", i, err)
		}
		out[i] = v
	}
	return out, nil
}

// ---- accessors used by the table closures

func (v val) str() string { // AsString view
	if v.K == 'b' {
		return string(v.By)
	}
	return v.S
}

func (v val) bytes() []byte { // AsBytes view
	if v.K == 's' {
		return []byte(v.S)
	}
	return v.By
}

func (v val) num() float64 { // AsFloat view
	if v.K == 'i' {
		return float64(v.I)
	}
	return v.F
}

func (v val) strs() []string {
	out := make([]string, len(v.L))
	for i, x := range v.L {
		out[i] = x.str()
	}
	return out
}

// ---- canonical rendering of Go values and of risor results

func canonFloat(f float64) string {
	if math.IsNaN(f) {
		return "float:NaN"
	}
	return fmt.Sprintf("float:%016x(%v)", math.Float64bits(f), f)
}

// canonGo renders a Go value as "<risor type>:<payload>".
func canonGo(x any) string {
	switch x := x.(type) {
	case nil:
		return "nil"
	case bool:
		return "bool:" + strconv.FormatBool(x)
	case int:
		return "int:" + strconv.Itoa(x)
	case int64:
		return "int:" + strconv.FormatInt(x, 10)
	case float64:
		return canonFloat(x)
	case string:
		return "string:" + strconv.QuoteToASCII(x)
	case []byte:
		return "byte_slice:" + hex.EncodeToString(x)
	case []string:
		parts := make([]string, len(x))
		for i, s := range x {
			parts[i] = canonGo(s)
		}
		return "list:[" + strings.Join(parts, ",") + "]"
	case []any:
		parts := make([]string, len(x))
		for i, s := range x {
			parts[i] = canonGo(s)
		}
		return "list:[" + strings.Join(parts, ",") + "]"
	case map[string]any:
		keys := make([]string, 0, len(x))
		for k := range x {
			keys = append(keys, k)
		}
		sort.Strings(keys)
		parts := make([]string, len(keys))
		for i, k := range keys {
			parts[i] = strconv.QuoteToASCII(k) + ":" + canonGo(x[k])
		}
		return "map:{" + strings.Join(parts, ",") + "}"
	case *regexp.Regexp:
		return "regexp:" + strconv.QuoteToASCII(x.String())
	}
	return fmt.Sprintf("?%T:%v", x, x)
}

// canonObj renders a risor result through Type() and Interface().
func canonObj(o object.Object) string {
	if o == nil {
		return "<go nil>"
	}
	if _, ok := o.(*object.Error); ok {
		return "ERR"
	}
	c := canonGo(o.Interface())
	// the declared risor type must match the payload type
	t := string(o.Type())
	if i := strings.IndexByte(c, ':'); i >= 0 {
		if c[:i] != t {
			return t + "!" + c
		}
	} else if c != t {
		return t + "!" + c
	}
	return c
}

func errText(o object.Object) string {
	if e, ok := o.(*object.Error); ok {
		return e.Value().Error()
	}
	return ""
}

// size is a cheap measure used to pick the smallest witness.
func (v val) size() int {
	n := 1 + len(v.S) + len(v.By)
	for i, x := range v.L {
		n += x.size()
		if v.K == 'm' {
			n += len(v.MK[i])
		}
	}
	return n
}
