package c19

import (
	"bytes"
	"encoding/base64"
	"fmt"
	"math"
	"path/filepath"
	"regexp"
	"strconv"
	"strings"
	"unicode/utf8"
)

// exp is what the Go standard library says about one argument tuple.
type exp struct {
	kind byte     // 'v' one of alts (canonical strings), 'e' the Go function fails (error or panic), 'a' statement silent: anything but a Go panic
	alts []string // canonical renderings
}

func want(x any) exp { return exp{kind: 'v', alts: []string{canonGo(x)}} }
func oneOf(xs ...any) exp {
	e := exp{kind: 'v'}
	for _, x := range xs {
		e.alts = append(e.alts, canonGo(x))
	}
	return e
}
func wantErr() exp { return exp{kind: 'e'} }
func silent() exp  { return exp{kind: 'a'} }

func (e exp) String() string {
	switch e.kind {
	case 'e':
		return "ERR"
	case 'a':
		return "(unspecified)"
	}
	return strings.Join(e.alts, " | ")
}

// guard runs a Go call; a Go panic or returned error means "the function is not defined here".
func guard(f func() (any, error)) (e exp) {
	defer func() {
		if p := recover(); p != nil {
			e = wantErr()
		}
	}()
	x, err := f()
	if err != nil {
		return wantErr()
	}
	return want(x)
}

func pure(f func() any) exp { return guard(func() (any, error) { return f(), nil }) }

// fn is one table row: a risor callable, the pools of its parameters and the Go oracle.
type fn struct {
	group  string // module name, or "string" / "byte_slice" / "regexp.object" for methods
	name   string
	method bool    // first parameter is the receiver
	params [][]val // pool per parameter (receiver first)
	min    int     // fewest parameters accepted (optional trailing parameters)
	gof    func(a []val) exp
	note   string
}

func (f *fn) target() string { return f.group + "." + f.name }

// ---------------------------------------------------------------- pools

var a300 = strings.Repeat("a", 300)

// first 12: the pool of the design (+ "A", mixed valid/invalid); rest: Unicode boundary cases that matter to
// case mapping, white space, rune decoding (dotted I, sharp s, title-case digraph, 4-byte rune, combining mark,
// truncated rune, encoded surrogate, U+2028, NBSP/tab/newline)
var poolS = []val{vs(""), vs("a"), vs("ab"), vs("aXbXc"), vs(" a "), vs("é"), vs("\xff"), vs("a\x00b"), vs(","), vs(a300), vs("A"), vs("éa\xffé"),
	vs("İi"), vs("ß"), vs("ǅ"), vs("😀"), vs("e\u0301"), vs("\xc3"), vs("\xed\xa0\x80"), vs("\u2028a\u00a0"), vs("\ta\n b\r"), vs("aa")}

// the json value space uses the first 12 only (it is squared twice)
var poolSJ = poolS[:12]

var poolI = []val{vi(-1), vi(0), vi(1), vi(2), vi(64), vi(math.MaxInt64), vi(math.MinInt64)}

var poolF = []val{vf(-1.5), vf(0), vf(0.5), vf(2), vf(1e308), vf(math.NaN()), vf(math.Inf(1)), vf(math.Inf(-1)), vf(math.Copysign(0, -1)), vf(5e-324), vf(2.5), vf(-0.5)}

var poolB = []val{vb(nil), vb([]byte("a")), vb([]byte("ab")), vb([]byte("aXbXc")), vb([]byte{0xff}), vb([]byte{0, 1, 0}), vb([]byte("é")), vb([]byte(a300))}

// bytes-like parameters accept byte_slice and string (object.AsBytes)
var poolBL = append(append([]val{}, poolB...), vs(""), vs("a"), vs("X"), vs("é"), vs("\xff"))

var poolBool = []val{vB(true), vB(false)}

var poolSL = []val{vsl(), vsl(""), vsl("a"), vsl("a", "b"), vsl("", ""), vsl("é", "\xff", "a\x00b"), vsl("a", "", "c"), vl(vs("a"), vb([]byte("b"))), vl(vs("a"), vi(1)), vl(vi(1))}

var poolN = append(append([]val{}, poolI...), poolF...) // numbers: AsFloat accepts ints

var poolNumList = []val{vl(), vl(vi(1)), vl(vi(1), vf(2.5)), vl(vf(-1.5), vf(0.5), vi(2)), vl(vf(1e308), vf(1e308)), vl(vf(math.NaN())), vl(vi(math.MaxInt64), vi(1)), vl(vi(1), vs("a")), vl(vs("a"))}

var poolNumStr = func() []val {
	ss := []string{"", "0", "1", "-1", "+1", "12", "007", "9223372036854775807", "9223372036854775808", "-9223372036854775808", "-9223372036854775809",
		"0x10", "0X1f", "0b101", "0o17", "1_000", "1e3", "1.5", "-0", ".5", "5.", "1e400", "1e-400", "NaN", "nan", "inf", "-Inf", "+Infinity", "0x1p-2",
		"true", "T", "FALSE", "t", "f", "True", "tRuE", "1 ", " 1", "ff", "z", "é", "\xff", "١", "127", "128", "-128", "-129", "2147483648", "zz", "Z"}
	out := make([]val, len(ss))
	for i, s := range ss {
		out[i] = vs(s)
	}
	return out
}()

var poolBase = []val{vi(-1), vi(0), vi(1), vi(2), vi(8), vi(10), vi(16), vi(36), vi(37), vi(64), vi(math.MaxInt64), vi(math.MinInt64)}
var poolBits = []val{vi(-1), vi(0), vi(1), vi(8), vi(32), vi(64), vi(65), vi(math.MinInt64)}

var poolPath = func() []val {
	ss := []string{"", ".", "..", "/", "//", "a", "a/b", "/a/b", "a/../b", "a//b", "a/b/", "a.txt", ".bashrc", "a.b.c", "/a/./b/../c", "a:b", "a:/b:c", ":", "é/x.é", "\xff", "../a", "../../a", "/..", "a/.", "a\\b", "a b/c", "a.", "/a/b.tar.gz", a300}
	out := make([]val, len(ss))
	for i, s := range ss {
		out[i] = vs(s)
	}
	return out
}()

var poolGlob = func() []val {
	ss := []string{"", "*", "a*", "?", "[a-b]", "[", "[]", "a\\", "\\a", "*.txt", "a/*", "[^a]", "[a-]", "**", "[!a]", "a", "?/b", "[a-b", "\\", "é", "[é-ë]", "*\xff", "a]", "[]a]", "[-]", "[\\]]"}
	out := make([]val, len(ss))
	for i, s := range ss {
		out[i] = vs(s)
	}
	return out
}()

var poolPat = func() []val {
	ss := []string{"", "a", "a*", "(a)(b)?", "[", "a{2}", "(?i)A", "X", ".", "é", "^", "$", "(", "a|", "\\b", "(?P<n>a)", "a{1001}", "\\C", "\\xff", "[^a]", "(a*)*", "a**", "(?s).", "\\pL", "x*", "(a)|b", "\\", "a{2,1}", "(?P<n>", "\\z", "[a-\\d]", ","}
	out := make([]val, len(ss))
	for i, s := range ss {
		out[i] = vs(s)
	}
	return out
}()

var poolPatOK = func() []val {
	var out []val
	for _, p := range poolPat {
		if _, err := regexp.Compile(p.S); err == nil {
			out = append(out, p)
		}
	}
	return out
}()

var poolRepl = append(append([]val{}, poolS...), vs("$1"), vs("${1}x"), vs("$"), vs("$$"), vs("$0"), vs("$n"), vs("${n}"), vs("$1x"), vs("${"))

// malformed-input alphabet of the property
var alphaM = []string{"A", "=", "!", "\xff", "%", "z"}

func allStrings(alpha []string, maxLen int) []string {
	out := []string{""}
	lo := 0
	for l := 1; l <= maxLen; l++ {
		hi := len(out)
		for i := lo; i < hi; i++ {
			for _, a := range alpha {
				out = append(out, out[i]+a)
			}
		}
		lo = hi
	}
	return out
}

var poolB64In = func() []val {
	var out []val
	for _, s := range allStrings(alphaM, 4) {
		out = append(out, vs(s))
	}
	for _, s := range []string{"YQ==", "YQ", "YWI=", "YWI", "YWJj", "_-8=", "+/8=", "_-8", "+/8", "YQ==\n", "Y Q==", "YQ=", "YQ===", "/w==", "w6k=", a300, "YR=="} {
		out = append(out, vs(s))
	}
	return out
}()

// ---------------------------------------------------------------- the tables

func firstRune(s string) (r rune, single, valid bool) {
	r, n := utf8.DecodeRuneInString(s)
	if s == "" {
		return 0, false, true
	}
	return r, n == len(s), !(r == utf8.RuneError && n == 1)
}

// byte-slice family: shared by module bytes (receiver = first argument) and byte_slice methods.
func byteSliceRows(group string, method bool) []*fn {
	mk := func(name string, params [][]val, min int, g func(a []val) exp, note string) *fn {
		return &fn{group: group, name: name, method: method, params: params, min: min, gof: g, note: note}
	}
	B, BL, S, I := poolB, poolBL, poolS, poolI
	runeArg := func(f func(b []byte, r rune) any) func(a []val) exp {
		return func(a []val) exp {
			r, single, valid := firstRune(a[1].str())
			if !single || !valid {
				// "", more than one character, or not UTF-8: risor's own domain rule applies, Go has no opinion
				return silent()
			}
			return pure(func() any { return f(a[0].By, r) })
		}
	}
	return []*fn{
		mk("clone", [][]val{B}, 1, func(a []val) exp { return pure(func() any { return bytes.Clone(a[0].By) }) }, "bytes.Clone (nil and empty are both the empty byte_slice)"),
		mk("equals", [][]val{B, BL}, 2, func(a []val) exp { return pure(func() any { return bytes.Equal(a[0].By, a[1].bytes()) }) }, "bytes.Equal"),
		mk("contains", [][]val{B, BL}, 2, func(a []val) exp { return pure(func() any { return bytes.Contains(a[0].By, a[1].bytes()) }) }, "bytes.Contains"),
		mk("contains_any", [][]val{B, S}, 2, func(a []val) exp { return pure(func() any { return bytes.ContainsAny(a[0].By, a[1].str()) }) }, "bytes.ContainsAny"),
		mk("contains_rune", [][]val{B, S}, 2, runeArg(func(b []byte, r rune) any { return bytes.ContainsRune(b, r) }), "bytes.ContainsRune with the single character of the argument"),
		mk("count", [][]val{B, BL}, 2, func(a []val) exp { return pure(func() any { return bytes.Count(a[0].By, a[1].bytes()) }) }, "bytes.Count"),
		mk("has_prefix", [][]val{B, BL}, 2, func(a []val) exp { return pure(func() any { return bytes.HasPrefix(a[0].By, a[1].bytes()) }) }, "bytes.HasPrefix"),
		mk("has_suffix", [][]val{B, BL}, 2, func(a []val) exp { return pure(func() any { return bytes.HasSuffix(a[0].By, a[1].bytes()) }) }, "bytes.HasSuffix"),
		mk("index", [][]val{B, BL}, 2, func(a []val) exp { return pure(func() any { return bytes.Index(a[0].By, a[1].bytes()) }) }, "bytes.Index"),
		mk("index_any", [][]val{B, S}, 2, func(a []val) exp { return pure(func() any { return bytes.IndexAny(a[0].By, a[1].str()) }) }, "bytes.IndexAny"),
		mk("index_byte", [][]val{B, BL}, 2, func(a []val) exp {
			c := a[1].bytes()
			if len(c) != 1 {
				return silent()
			}
			return pure(func() any { return bytes.IndexByte(a[0].By, c[0]) })
		}, "bytes.IndexByte with the single byte of the argument"),
		mk("index_rune", [][]val{B, S}, 2, runeArg(func(b []byte, r rune) any { return bytes.IndexRune(b, r) }), "bytes.IndexRune with the single character of the argument"),
		mk("repeat", [][]val{B, I}, 2, func(a []val) exp { return pure(func() any { return bytes.Repeat(a[0].By, int(a[1].I)) }) }, "bytes.Repeat (panics on negative / overflowing counts)"),
		mk("replace", [][]val{B, BL, BL, I}, 4, func(a []val) exp {
			return pure(func() any { return bytes.Replace(a[0].By, a[1].bytes(), a[2].bytes(), int(a[3].I)) })
		}, "bytes.Replace"),
		mk("replace_all", [][]val{B, BL, BL}, 3, func(a []val) exp {
			return pure(func() any { return bytes.ReplaceAll(a[0].By, a[1].bytes(), a[2].bytes()) })
		}, "bytes.ReplaceAll"),
	}
}

// string family: shared by module strings and string methods.
func stringRows(group string, method bool) []*fn {
	mk := func(name string, params [][]val, g func(a []val) exp, note string) *fn {
		return &fn{group: group, name: name, method: method, params: params, min: len(params), gof: g, note: note}
	}
	S, I := poolS, poolI
	s2 := func(f func(a, b string) any) func(a []val) exp {
		return func(a []val) exp { return pure(func() any { return f(a[0].str(), a[1].str()) }) }
	}
	s1 := func(f func(a string) any) func(a []val) exp {
		return func(a []val) exp { return pure(func() any { return f(a[0].str()) }) }
	}
	rows := []*fn{
		mk("contains", [][]val{S, S}, s2(func(a, b string) any { return strings.Contains(a, b) }), "strings.Contains"),
		mk("has_prefix", [][]val{S, S}, s2(func(a, b string) any { return strings.HasPrefix(a, b) }), "strings.HasPrefix"),
		mk("has_suffix", [][]val{S, S}, s2(func(a, b string) any { return strings.HasSuffix(a, b) }), "strings.HasSuffix"),
		mk("count", [][]val{S, S}, s2(func(a, b string) any { return strings.Count(a, b) }), "strings.Count"),
		mk("split", [][]val{S, S}, s2(func(a, b string) any { return strings.Split(a, b) }), "strings.Split"),
		mk("fields", [][]val{S}, s1(func(a string) any { return strings.Fields(a) }), "strings.Fields"),
		mk("index", [][]val{S, S}, s2(func(a, b string) any { return strings.Index(a, b) }), "strings.Index"),
		mk("last_index", [][]val{S, S}, s2(func(a, b string) any { return strings.LastIndex(a, b) }), "strings.LastIndex"),
		mk("replace_all", [][]val{S, S, S}, func(a []val) exp {
			return pure(func() any { return strings.ReplaceAll(a[0].str(), a[1].str(), a[2].str()) })
		}, "strings.ReplaceAll"),
		mk("to_lower", [][]val{S}, s1(func(a string) any { return strings.ToLower(a) }), "strings.ToLower"),
		mk("to_upper", [][]val{S}, s1(func(a string) any { return strings.ToUpper(a) }), "strings.ToUpper"),
		mk("trim", [][]val{S, S}, s2(func(a, b string) any { return strings.Trim(a, b) }), "strings.Trim"),
		mk("trim_prefix", [][]val{S, S}, s2(func(a, b string) any { return strings.TrimPrefix(a, b) }), "strings.TrimPrefix"),
		mk("trim_suffix", [][]val{S, S}, s2(func(a, b string) any { return strings.TrimSuffix(a, b) }), "strings.TrimSuffix"),
		mk("trim_space", [][]val{S}, s1(func(a string) any { return strings.TrimSpace(a) }), "strings.TrimSpace"),
	}
	joinOracle := func(list, sep val) exp {
		for _, x := range list.L {
			if x.K != 's' && x.K != 'b' {
				return wantErr() // not a list of strings: Go's []string cannot hold it
			}
		}
		return pure(func() any { return strings.Join(list.strs(), sep.str()) })
	}
	if method {
		rows = append(rows, mk("join", [][]val{S, poolSL}, func(a []val) exp { return joinOracle(a[1], a[0]) }, "strings.Join(list, receiver)"))
	} else {
		rows = append(rows,
			mk("join", [][]val{poolSL, S}, func(a []val) exp { return joinOracle(a[0], a[1]) }, "strings.Join"),
			mk("compare", [][]val{S, S}, s2(func(a, b string) any { return strings.Compare(a, b) }), "strings.Compare"),
			mk("repeat", [][]val{S, I}, func(a []val) exp { return pure(func() any { return strings.Repeat(a[0].str(), int(a[1].I)) }) }, "strings.Repeat (panics on negative / overflowing counts)"),
		)
	}
	return rows
}

func floatToIntDefined(x float64) bool {
	return !math.IsNaN(x) && !math.IsInf(x, 0) && math.Abs(x) < 9.2e18
}

func mathRows() []*fn {
	N := poolN
	mk := func(name string, params [][]val, min int, g func(a []val) exp, note string) *fn {
		return &fn{group: "math", name: name, params: params, min: min, gof: g, note: note}
	}
	f1 := func(f func(x float64) float64) func(a []val) exp {
		return func(a []val) exp { return pure(func() any { return f(a[0].num()) }) }
	}
	f2 := func(f func(x, y float64) float64) func(a []val) exp {
		return func(a []val) exp { return pure(func() any { return f(a[0].num(), a[1].num()) }) }
	}
	intOrFloat := func(f func(x float64) float64) func(a []val) exp { // ceil / floor: an int argument is already integral
		return func(a []val) exp {
			if a[0].K == 'i' {
				return oneOf(a[0].I, f(float64(a[0].I)))
			}
			return want(f(a[0].F))
		}
	}
	return []*fn{
		mk("abs", [][]val{N}, 1, func(a []val) exp {
			if a[0].K == 'i' {
				if a[0].I == math.MinInt64 {
					return silent() // |MinInt64| is not an int64; Go has no integer Abs
				}
				if a[0].I < 0 {
					return want(-a[0].I)
				}
				return want(a[0].I)
			}
			return want(math.Abs(a[0].F))
		}, "math.Abs for floats; |v| for ints"),
		mk("atan2", [][]val{N, N}, 2, f2(math.Atan2), "math.Atan2"),
		mk("ceil", [][]val{N}, 1, intOrFloat(math.Ceil), "math.Ceil; int argument: the same int (or its float)"),
		mk("floor", [][]val{N}, 1, intOrFloat(math.Floor), "math.Floor; int argument: the same int (or its float)"),
		mk("cos", [][]val{N}, 1, f1(math.Cos), "math.Cos"),
		mk("sin", [][]val{N}, 1, f1(math.Sin), "math.Sin"),
		mk("tan", [][]val{N}, 1, f1(math.Tan), "math.Tan"),
		mk("sqrt", [][]val{N}, 1, f1(math.Sqrt), "math.Sqrt"),
		mk("log", [][]val{N}, 1, f1(math.Log), "math.Log"),
		mk("log10", [][]val{N}, 1, f1(math.Log10), "math.Log10"),
		mk("log2", [][]val{N}, 1, f1(math.Log2), "math.Log2"),
		mk("round", [][]val{N}, 1, f1(math.Round), "math.Round"),
		mk("max", [][]val{N, N}, 2, f2(math.Max), "math.Max"),
		mk("min", [][]val{N, N}, 2, f2(math.Min), "math.Min"),
		mk("mod", [][]val{N, N}, 2, f2(math.Mod), "math.Mod"),
		mk("pow", [][]val{N, N}, 2, f2(math.Pow), "math.Pow"),
		mk("pow10", [][]val{N}, 1, func(a []val) exp {
			x := a[0].num()
			if !floatToIntDefined(x) {
				return silent() // float -> int conversion is implementation-defined in Go for these
			}
			return want(math.Pow10(int(x)))
		}, "math.Pow10(int(x))"),
		mk("is_inf", [][]val{N}, 1, func(a []val) exp { return want(math.IsInf(a[0].num(), 0)) }, "math.IsInf(x, 0)"),
		mk("inf", [][]val{poolI}, 0, func(a []val) exp {
			if len(a) == 0 {
				return want(math.Inf(1))
			}
			return want(math.Inf(int(a[0].I)))
		}, "math.Inf(sign), default +1"),
		mk("sum", [][]val{poolNumList}, 1, func(a []val) exp {
			s := 0.0
			for _, x := range a[0].L {
				if x.K != 'i' && x.K != 'f' {
					return wantErr()
				}
				s += x.num()
			}
			return want(s)
		}, "left-to-right float64 sum (no Go counterpart; lists only, sets have no order)"),
	}
}

func strconvRows() []*fn {
	mk := func(name string, params [][]val, min int, g func(a []val) exp, note string) *fn {
		return &fn{group: "strconv", name: name, params: params, min: min, gof: g, note: note}
	}
	NS := poolNumStr
	return []*fn{
		mk("atoi", [][]val{NS}, 1, func(a []val) exp {
			return guard(func() (any, error) { n, err := strconv.Atoi(a[0].S); return n, err })
		}, "strconv.Atoi"),
		mk("parse_bool", [][]val{NS}, 1, func(a []val) exp {
			return guard(func() (any, error) { b, err := strconv.ParseBool(a[0].S); return b, err })
		}, "strconv.ParseBool"),
		mk("parse_float", [][]val{NS}, 1, func(a []val) exp {
			return guard(func() (any, error) { f, err := strconv.ParseFloat(a[0].S, 64); return f, err })
		}, "strconv.ParseFloat(s, 64)"),
		mk("parse_int", [][]val{NS, poolBase, poolBits}, 1, func(a []val) exp {
			base, bits := 10, 64
			if len(a) > 1 {
				base = int(a[1].I)
			}
			if len(a) > 2 {
				bits = int(a[2].I)
			}
			return guard(func() (any, error) { n, err := strconv.ParseInt(a[0].S, base, bits); return n, err })
		}, "strconv.ParseInt(s, base=10, bits=64)"),
	}
}

func base64Rows() []*fn {
	mk := func(name string, params [][]val, g func(a []val) exp, note string) *fn {
		return &fn{group: "base64", name: name, params: params, min: 1, gof: g, note: note}
	}
	pad := func(a []val) bool { return len(a) < 2 || a[1].Bo }
	encs := func(url bool, padding bool) *base64.Encoding {
		switch {
		case url && padding:
			return base64.URLEncoding
		case url:
			return base64.RawURLEncoding
		case padding:
			return base64.StdEncoding
		}
		return base64.RawStdEncoding
	}
	enc := func(url bool) func(a []val) exp {
		return func(a []val) exp {
			return pure(func() any { return encs(url, pad(a)).EncodeToString(a[0].bytes()) })
		}
	}
	dec := func(url bool) func(a []val) exp {
		return func(a []val) exp {
			return guard(func() (any, error) { b, err := encs(url, pad(a)).DecodeString(a[0].str()); return b, err })
		}
	}
	return []*fn{
		mk("encode", [][]val{poolBL, poolBool}, enc(false), "base64.StdEncoding / RawStdEncoding .EncodeToString"),
		mk("url_encode", [][]val{poolBL, poolBool}, enc(true), "base64.URLEncoding / RawURLEncoding .EncodeToString"),
		mk("decode", [][]val{poolB64In, poolBool}, dec(false), "base64.StdEncoding / RawStdEncoding .DecodeString"),
		mk("url_decode", [][]val{poolB64In, poolBool}, dec(true), "base64.URLEncoding / RawURLEncoding .DecodeString"),
	}
}

func filepathRows() []*fn {
	P := poolPath
	mk := func(name string, params [][]val, min int, g func(a []val) exp, note string) *fn {
		return &fn{group: "filepath", name: name, params: params, min: min, gof: g, note: note}
	}
	p1 := func(f func(p string) any) func(a []val) exp {
		return func(a []val) exp { return pure(func() any { return f(a[0].S) }) }
	}
	return []*fn{
		mk("abs", [][]val{P}, 1, func(a []val) exp {
			return guard(func() (any, error) { s, err := filepath.Abs(a[0].S); return s, err })
		}, "filepath.Abs (working directory of the process; no OS in the context)"),
		mk("base", [][]val{P}, 1, p1(func(p string) any { return filepath.Base(p) }), "filepath.Base"),
		mk("clean", [][]val{P}, 1, p1(func(p string) any { return filepath.Clean(p) }), "filepath.Clean"),
		mk("dir", [][]val{P}, 1, p1(func(p string) any { return filepath.Dir(p) }), "filepath.Dir"),
		mk("ext", [][]val{P}, 1, p1(func(p string) any { return filepath.Ext(p) }), "filepath.Ext"),
		mk("is_abs", [][]val{P}, 1, p1(func(p string) any { return filepath.IsAbs(p) }), "filepath.IsAbs"),
		mk("join", [][]val{P, P, P}, 0, func(a []val) exp {
			ss := make([]string, len(a))
			for i := range a {
				ss[i] = a[i].S
			}
			return pure(func() any { return filepath.Join(ss...) })
		}, "filepath.Join, 0..3 elements"),
		mk("match", [][]val{poolGlob, append(append([]val{}, P...), poolS...)}, 2, func(a []val) exp {
			return guard(func() (any, error) { ok, err := filepath.Match(a[0].S, a[1].S); return ok, err })
		}, "filepath.Match"),
		mk("rel", [][]val{P, P}, 2, func(a []val) exp {
			return guard(func() (any, error) { s, err := filepath.Rel(a[0].S, a[1].S); return s, err })
		}, "filepath.Rel"),
		mk("split", [][]val{P}, 1, p1(func(p string) any { d, f := filepath.Split(p); return []string{d, f} }), "filepath.Split as [dir, file]"),
		mk("split_list", [][]val{P}, 1, p1(func(p string) any { return filepath.SplitList(p) }), "filepath.SplitList"),
	}
}

func regexpRows() []*fn {
	subj := append(append([]val{}, poolS...), vs("aab"), vs("abab"), vs("XaX"))
	mod := func(name string, params [][]val, g func(a []val) exp, note string) *fn {
		return &fn{group: "regexp", name: name, params: params, min: len(params), gof: g, note: note}
	}
	met := func(name string, params [][]val, min int, g func(re *regexp.Regexp, a []val) exp, note string) *fn {
		return &fn{group: "regexp.object", name: name, method: true, params: params, min: min, note: note,
			gof: func(a []val) exp {
				re, err := regexp.Compile(a[0].S)
				if err != nil {
					return silent()
				}
				return g(re, a[1:])
			}}
	}
	compile := func(a []val) exp {
		return guard(func() (any, error) { re, err := regexp.Compile(a[0].S); return re, err })
	}
	return []*fn{
		mod("compile", [][]val{poolPat}, compile, "regexp.Compile"),
		mod("(call)", [][]val{poolPat}, compile, "the module object called as a function = regexp.Compile"),
		mod("match", [][]val{poolPat, subj}, func(a []val) exp {
			return guard(func() (any, error) { ok, err := regexp.MatchString(a[0].S, a[1].S); return ok, err })
		}, "regexp.MatchString"),
		met("match", [][]val{poolPatOK, subj}, 2, func(re *regexp.Regexp, a []val) exp {
			return pure(func() any { return re.MatchString(a[0].S) })
		}, "(*Regexp).MatchString"),
		met("find", [][]val{poolPatOK, subj}, 2, func(re *regexp.Regexp, a []val) exp {
			return pure(func() any { return re.FindString(a[0].S) })
		}, "(*Regexp).FindString"),
		met("find_all", [][]val{poolPatOK, subj, poolI}, 2, func(re *regexp.Regexp, a []val) exp {
			n := -1
			if len(a) > 1 {
				n = int(a[1].I)
			}
			return pure(func() any { return re.FindAllString(a[0].S, n) })
		}, "(*Regexp).FindAllString(s, n=-1)"),
		met("find_submatch", [][]val{poolPatOK, subj}, 2, func(re *regexp.Regexp, a []val) exp {
			return pure(func() any { return re.FindStringSubmatch(a[0].S) })
		}, "(*Regexp).FindStringSubmatch"),
		met("replace_all", [][]val{poolPatOK, subj, poolRepl}, 3, func(re *regexp.Regexp, a []val) exp {
			return pure(func() any { return re.ReplaceAllString(a[0].S, a[1].S) })
		}, "(*Regexp).ReplaceAllString"),
		met("split", [][]val{poolPatOK, subj, poolI}, 2, func(re *regexp.Regexp, a []val) exp {
			n := -1
			if len(a) > 1 {
				n = int(a[1].I)
			}
			return pure(func() any { return re.Split(a[0].S, n) })
		}, "(*Regexp).Split(s, n=-1)"),
	}
}

// constants of module math (attributes that are not functions)
var mathConsts = map[string]float64{"E": math.E, "PI": math.Pi}

// skip lists: discovered names that deliberately have no table row.
var skipped = map[string]string{
	"filepath.walk_dir": "not a pure wrapper: walks the host filesystem and calls back into the VM (covered by C12/C13)",
}

func buildTable() []*fn {
	var t []*fn
	t = append(t, stringRows("strings", false)...)
	t = append(t, stringRows("string", true)...)
	t = append(t, strconvRows()...)
	t = append(t, mathRows()...)
	t = append(t, byteSliceRows("bytes", false)...)
	t = append(t, byteSliceRows("byte_slice", true)...)
	t = append(t, base64Rows()...)
	t = append(t, filepathRows()...)
	t = append(t, regexpRows()...)
	for _, f := range t {
		if f.min > len(f.params) {
			panic(fmt.Sprintf("bad row %s", f.target()))
		}
	}
	return t
}
