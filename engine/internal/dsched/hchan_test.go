package dsched

import "testing"

func TestHchan(t *testing.T) {
	if !hchanAvailable() {
		t.Fatal("hchan self-test failed")
	}
}
