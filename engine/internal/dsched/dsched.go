// Package dsched is a controlled scheduler for the hooked risor packages
// (build tag verif) with a depth-first exploration of all schedules up to a
// preemption bound, and a vector-clock happens-before race detector.
//
// Tasks are real goroutines. At every hook point a task parks; the scheduler
// waits until every granted task has parked or ended (quiescence), computes
// the enabled set from its own bookkeeping, takes the next choice of the
// exploration and grants exactly one transition (two tasks for an unbuffered
// channel rendezvous). The blocking operation that follows a grant completes
// at once, because a transition is only enabled when it can.
package dsched

import (
	"context"
	"fmt"
	"os"
	"runtime"
	"strconv"
	"strings"
	"sync"
	"sync/atomic"
	"time"

	modtime "github.com/risor-io/risor/modules/time"
	"github.com/risor-io/risor/object"
	"github.com/risor-io/risor/op"
	"github.com/risor-io/risor/vm"
)

type Kind int

const (
	KStart Kind = iota
	KStep
	KSend
	KRecv
	KClose
	KWait
	KSleep
	KCtxWait
	KHaltStore
	KAccess
	KLock
	KUnlock
	KEnv
)

var kindNames = []string{"start", "step", "send", "recv", "close", "wait", "sleep", "ctxwait", "haltstore", "access", "lock", "unlock", "env"}

func (k Kind) String() string { return kindNames[k] }

type opInfo struct {
	kind  Kind
	ch    *object.Chan
	done  <-chan bool
	ctx   context.Context
	ctxCh <-chan struct{}
	mu    any
	loc   any
	field string
	write bool
	rlock bool
	label string
	vm    *vm.VirtualMachine
	cond  func() bool // KEnv: enabled only while cond() holds (nil = always)
	idle  bool        // KEnv: also enabled when nothing else is
}

// Task is one goroutine under the scheduler's control.
type Task struct {
	ID         int
	Label      string
	gid        int64
	resume     chan struct{}
	spawned    chan struct{}
	parent     *Task
	cur        opInfo
	ended      bool
	parked     bool
	Steps      int // vm instructions executed (counted by the step hook, scheduling point or not)
	Points     int // scheduling points taken
	clock      vc
	exiting    bool
	Urgent     bool // listed first in the canonical order when enabled (environment tasks whose default is "now")
	openedIdle bool
	waiting    int  // consecutive decisions during which the task was enabled but not chosen
	fresh      bool // arrived at its current point since the last decision
	inflight   bool // blocked inside a real channel operation (ParkInside)
}

// Ended reports whether the task has finished.
func (t *Task) Ended() bool { return t.ended }

type event struct {
	t    *Task
	kind int // 0 parked, 1 ended, 2 spawn announced, 3 registered
}

// Exec is one execution under one schedule.
type Exec struct {
	mu       sync.Mutex
	sc       *Scenario
	tasks    []*Task
	byGid    map[int64]*Task
	events   chan event
	running  int
	pending  int
	spawner  *Task
	abandon  int32
	closed   map[*object.Chan]bool
	closeVC  map[*object.Chan]vc
	chanVCs  map[*object.Chan][]vc
	owner    map[any]*Task
	readers  map[any]int
	released map[any]vc
	locs     map[string]*locState
	cancelVC map[<-chan struct{}]vc
	inRecv   map[*object.Chan][]*Task // tasks blocked inside a receive, in blocking order
	inSend   map[*object.Chan][]*Task // tasks blocked inside a send, in blocking order

	prefix           []int
	Choices          []int
	Enabled          [][]int
	Costs            []int // preemption cost of each alternative index at each step is derived; here: whether last-run task was enabled
	lastRun          int
	lastStillEnabled []bool

	Trace      []string
	Races      []string
	Deadlock   bool
	Ambiguous  string // a select with two ready cases was about to be granted
	Leftover   []string
	Stopped    bool   // ended by Scenario.Stop
	Stuck      string // a granted operation that was enabled only because its context was cancelled did not return
	lastGrant  []string
	afterRoot  int
	rootEnded  bool
	rootEndAt  int // index of the first decision taken after the body returned (-1: none)
	envNext    bool
	ctxGranted string // the last granted transition, if it was a blocking operation enabled only by a cancelled context
	State      any
	Notes      []string // free for scenario bodies (e.g. results)
	notesMu    sync.Mutex
}

func (x *Exec) Note(s string) {
	x.notesMu.Lock()
	x.Notes = append(x.Notes, s)
	x.notesMu.Unlock()
}

// Scenario describes one closed system to explore.
type Scenario struct {
	Name string
	// Setup returns the fresh state of one execution (called before every execution and replay).
	Setup func() any
	// Body runs as task 0.
	Body func(x *Exec, st any)
	// Env are environment tasks (cancellers, ...) started with the body; each runs as its own task
	// and typically consists of x.EnvPoint("label") followed by one action.
	Env []func(x *Exec, st any)
	// StepPoint decides whether a vm instruction of a tracked task is a scheduling point.
	StepPoint func(x *Exec, t *Task, m *vm.VirtualMachine, code op.Code) bool
	// Horizon: scheduling steps granted after the body has ended before the rest is abandoned.
	Horizon int
	// MaxSteps guards one execution.
	MaxSteps int
	// Check judges one finished execution; "" = fine. key is the canonical outcome of the execution.
	Check func(x *Exec, st any) (violation string, key string)
	// EnvUrgent: environment tasks come first in the canonical order as soon as they are enabled.
	EnvUrgent bool
	// Fair > 0: a task that has been enabled but not chosen for Fair consecutive decisions is
	// scheduled next (listed first), so that spinning tasks cannot starve the others.
	Fair int
	// Stop, when set, is evaluated before every decision; true ends the execution at once (the
	// remaining tasks are abandoned) and hands it to Check. Used to cut executions that have
	// already shown what they can show (e.g. a task that keeps running long after a cancel).
	Stop func(x *Exec, st any) bool
	// NoBranchAfterRoot: decisions taken after the body has returned are not branched on (the
	// drain phase runs under the default fair schedule only).
	NoBranchAfterRoot bool
	// AllowSelectRace: do not flag a channel operation whose context is cancelled while the channel case is also ready.
	AllowSelectRace bool
	// ParkInside: a task that arrives at a channel send / receive that cannot complete yet may, as
	// an alternative to waiting at the scheduling point, enter the real operation and block inside
	// it (offered once, in the decision that follows its arrival). It is woken by the send, receive
	// or close of another task, so the implementation's "blocked, then woken" path is explored as
	// well as its "ready on arrival" path. Scenarios that use it must not cancel contexts.
	ParkInside bool
}

var cur atomic.Pointer[Exec]
var installOnce sync.Once

func (x *Exec) me() *Task {
	g := gid()
	x.mu.Lock()
	defer x.mu.Unlock()
	return x.byGid[g]
}

// zombies are goroutines of finished executions that were still running when the execution
// was abandoned: they are terminated at their next hook call so that they cannot run on.
var zombies sync.Map
var nZombies atomic.Int64

// current returns the running execution and the calling task (nil, nil if untracked).
// A zombie goroutine never returns from this call.
func current() (*Exec, *Task) {
	var g int64 = -1
	if nZombies.Load() > 0 {
		g = gid()
		if _, ok := zombies.LoadAndDelete(g); ok {
			nZombies.Add(-1)
			runtime.Goexit()
		}
	}
	x := cur.Load()
	if x == nil {
		return nil, nil
	}
	if g < 0 {
		g = gid()
	}
	x.mu.Lock()
	t := x.byGid[g]
	x.mu.Unlock()
	if t == nil {
		return nil, nil
	}
	if atomic.LoadInt32(&x.abandon) == 1 {
		if !t.exiting {
			t.exiting = true
			runtime.Goexit()
		}
		return nil, nil
	}
	return x, t
}

// Install wires the hooks of the risor packages to this package (idempotent).
func Install() {
	installOnce.Do(func() {
		object.VerifGo = hookGo
		vm.VerifGo = hookGo
		object.VerifPoint = func(kind int, obj any, ctx context.Context) {
			switch kind {
			case object.VerifChanSend:
				point(opInfo{kind: KSend, ch: obj.(*object.Chan), ctx: ctx})
			case object.VerifChanRecv:
				point(opInfo{kind: KRecv, ch: obj.(*object.Chan), ctx: ctx})
			case object.VerifChanClose:
				point(opInfo{kind: KClose, ch: obj.(*object.Chan)})
			case object.VerifThreadWait:
				point(opInfo{kind: KWait, done: obj.(<-chan bool), ctx: ctx})
			}
		}
		vm.VerifPoint = func(kind int, obj any, m *vm.VirtualMachine) {
			switch kind {
			case vm.VerifCtxWait:
				point(opInfo{kind: KCtxWait, ctxCh: obj.(<-chan struct{}), vm: m})
			case vm.VerifHaltStore:
				point(opInfo{kind: KHaltStore, ctxCh: obj.(<-chan struct{}), vm: m})
			}
		}
		object.VerifAccess = func(obj any, field string, write bool) {
			point(opInfo{kind: KAccess, loc: obj, field: field, write: write})
		}
		object.VerifLock = func(mu any, phase int) {
			switch phase {
			case object.VerifLockAcquire:
				point(opInfo{kind: KLock, mu: mu})
			case object.VerifRLockAcquire:
				point(opInfo{kind: KLock, mu: mu, rlock: true})
			case object.VerifLockRelease:
				point(opInfo{kind: KUnlock, mu: mu})
			case object.VerifRLockRelease:
				point(opInfo{kind: KUnlock, mu: mu, rlock: true})
			}
		}
		modtime.VerifSleep = func(ctx context.Context, seconds float64) {
			point(opInfo{kind: KSleep, ctx: ctx, label: fmt.Sprint(seconds)})
		}
	})
	vm.VerifStep = hookStep
}

func hookStep(m *vm.VirtualMachine, code op.Code) {
	x, t := current()
	if t == nil {
		return
	}
	t.Steps++
	if x.sc.StepPoint != nil && x.sc.StepPoint(x, t, m, code) {
		point(opInfo{kind: KStep, vm: m, label: op.GetInfo(code).Name})
	}
}

func hookGo(phase int) {
	if phase == 1 {
		x := cur.Load()
		if x == nil {
			return
		}
		x.mu.Lock()
		par := x.spawner
		x.spawner = nil
		x.mu.Unlock()
		if par == nil {
			return // started by an untracked goroutine: stays untracked
		}
		x.register(par, "spawned")
		return
	}
	x, t := current()
	if t == nil {
		return
	}
	switch phase {
	case 0: // announce, in the parent
		x.mu.Lock()
		x.spawner = t
		x.mu.Unlock()
		x.events <- event{kind: 2}
	case 2: // child end
		x.events <- event{t: t, kind: 1}
	case 3: // parent, after the go statement: wait until the child has registered
		<-t.spawned
	}
}

func (x *Exec) registerEnv(label string) {
	x.envNext = x.sc.EnvUrgent
	x.register(nil, label)
}

// register makes the calling goroutine a task and parks it until its first grant.
func (x *Exec) register(par *Task, label string) {
	t := &Task{gid: gid(), resume: make(chan struct{}), spawned: make(chan struct{}, 16), parent: par, Label: label}
	x.mu.Lock()
	if x.envNext {
		t.Urgent = true
		x.envNext = false
	}
	t.ID = len(x.tasks)
	x.tasks = append(x.tasks, t)
	x.byGid[t.gid] = t
	x.mu.Unlock()
	t.cur = opInfo{kind: KStart, label: label}
	if par != nil {
		par.spawned <- struct{}{}
	}
	x.events <- event{t: t, kind: 3}
	<-t.resume
	if atomic.LoadInt32(&x.abandon) == 1 {
		t.exiting = true
		runtime.Goexit()
	}
}

func point(o opInfo) {
	x, t := current()
	if t == nil {
		return
	}
	t.cur = o
	t.Points++
	x.events <- event{t: t, kind: 0}
	<-t.resume
	if atomic.LoadInt32(&x.abandon) == 1 {
		t.exiting = true
		runtime.Goexit()
	}
}

// EnvPoint is a scheduling point for environment tasks and scenario bodies.
func (x *Exec) EnvPoint(label string) { point(opInfo{kind: KEnv, label: label}) }

// EnvGate is a scheduling point that is enabled only while cond() holds. cond is evaluated by
// the scheduler while every task is parked.
func (x *Exec) EnvGate(label string, cond func() bool) {
	point(opInfo{kind: KEnv, label: label, cond: cond})
}

// EnvGateOrIdle is like EnvGate but the gate also opens when no other task is enabled
// (the rest of the system is blocked). It reports whether it was opened by idleness.
func (x *Exec) EnvGateOrIdle(label string, cond func() bool) bool {
	point(opInfo{kind: KEnv, label: label, cond: cond, idle: true})
	_, t := current()
	return t != nil && t.openedIdle
}

// Task returns task i (0 = the body) or nil.
func (x *Exec) Task(i int) *Task {
	x.mu.Lock()
	defer x.mu.Unlock()
	if i < len(x.tasks) {
		return x.tasks[i]
	}
	return nil
}

// Tasks returns a snapshot of all tasks.
func (x *Exec) Tasks() []*Task {
	x.mu.Lock()
	defer x.mu.Unlock()
	return append([]*Task{}, x.tasks...)
}

// RootEnded reports whether the body has returned.
func (x *Exec) RootEnded() bool { return x.rootEnded }

// Cancel cancels a context from an environment task and records the happens-before edge.
func (x *Exec) Cancel(ctx context.Context, cancel context.CancelFunc) {
	if t := x.me(); t != nil && t.clock != nil {
		x.mu.Lock()
		x.cancelVC[ctx.Done()] = t.clock.copy()
		x.mu.Unlock()
	}
	cancel()
}

// Go starts fn as a new task (for scenario bodies that need several concurrent evaluations).
func (x *Exec) Go(label string, fn func()) {
	par := x.me()
	x.mu.Lock()
	x.spawner = par
	x.mu.Unlock()
	x.events <- event{kind: 2}
	go func() {
		x.mu.Lock()
		x.spawner = nil
		x.mu.Unlock()
		x.register(par, label)
		defer func() {
			if atomic.LoadInt32(&x.abandon) == 0 {
				x.events <- event{t: x.me(), kind: 1}
			}
		}()
		fn()
	}()
	if par != nil {
		<-par.spawned
	}
}

// ------------------------------------------------------------------ scheduler

type transition struct {
	t       *Task
	partner *Task
	early   bool // the task enters the blocking operation although it cannot complete yet
}

// quiesceTimeout: how long the scheduler waits for a running task to reach its next point (45 s;
// VERIF_DSCHED_TIMEOUT_S shortens it for debugging).
func quiesceTimeout() time.Duration {
	if v := os.Getenv("VERIF_DSCHED_TIMEOUT_S"); v != "" {
		if n, err := strconv.Atoi(v); err == nil && n > 0 {
			return time.Duration(n) * time.Second
		}
	}
	return 45 * time.Second
}

func (x *Exec) quiesce() bool {
	timer := time.NewTimer(quiesceTimeout())
	defer timer.Stop()
	for x.running > 0 || x.pending > 0 {
		select {
		case ev := <-x.events:
			switch ev.kind {
			case 0:
				ev.t.parked = true
				ev.t.fresh = true
				x.running--
			case 1:
				ev.t.ended = true
				x.running--
			case 2:
				x.pending++
			case 3:
				x.pending--
				ev.t.parked = true
			}
		case <-timer.C:
			return false
		}
	}
	return true
}

func ctxDone(ctx context.Context) bool {
	if ctx == nil {
		return false
	}
	select {
	case <-ctx.Done():
		return true
	default:
		return false
	}
}

func chDone(c <-chan struct{}) bool {
	select {
	case <-c:
		return true
	default:
		return false
	}
}

func (x *Exec) enabled() []transition {
	var out []transition
	for _, t := range x.tasks {
		if t.ended || !t.parked {
			continue
		}
		o := t.cur
		switch o.kind {
		case KStart, KStep, KAccess, KClose, KHaltStore, KUnlock:
			out = append(out, transition{t: t})
		case KEnv:
			if o.cond == nil || o.cond() {
				out = append(out, transition{t: t})
			}
		case KLock:
			if o.rlock {
				if x.owner[o.mu] == nil {
					out = append(out, transition{t: t})
				}
			} else if x.owner[o.mu] == nil && x.readers[o.mu] == 0 {
				out = append(out, transition{t: t})
			}
		case KCtxWait:
			if chDone(o.ctxCh) {
				out = append(out, transition{t: t})
			}
		case KSleep:
			if ctxDone(o.ctx) {
				out = append(out, transition{t: t})
			}
		case KWait:
			ready := false
			select {
			case <-o.done:
				ready = true
			default:
			}
			if ready && ctxDone(o.ctx) && !x.sc.AllowSelectRace {
				x.Ambiguous = fmt.Sprintf("t%d wait: thread done and context cancelled", t.ID)
			}
			if ready || ctxDone(o.ctx) {
				out = append(out, transition{t: t})
			}
		case KSend:
			n, c := object.VerifChanState(o.ch)
			can := x.closed[o.ch] || (c > 0 && n < c) || len(x.inRecv[o.ch]) > 0
			if can || ctxDone(o.ctx) {
				if can && ctxDone(o.ctx) && !x.sc.AllowSelectRace {
					x.Ambiguous = fmt.Sprintf("t%d send: channel ready and context cancelled", t.ID)
				}
				out = append(out, transition{t: t})
			} else {
				if c == 0 && len(x.inSend[o.ch]) == 0 {
					// (with senders already blocked inside the operation the channel is first come, first
					// served: a parked receiver takes THEIR value, so this sender has nobody to meet)
					for _, r := range x.tasks {
						if r != t && r.parked && !r.ended && r.cur.kind == KRecv && r.cur.ch == o.ch {
							out = append(out, transition{t: t, partner: r})
						}
					}
				}
				if x.sc.ParkInside && t.fresh {
					out = append(out, transition{t: t, early: true})
				}
			}
		case KRecv:
			n, _ := object.VerifChanState(o.ch)
			can := x.closed[o.ch] || n > 0 || len(x.inSend[o.ch]) > 0
			if can || ctxDone(o.ctx) {
				if can && ctxDone(o.ctx) && !x.sc.AllowSelectRace {
					x.Ambiguous = fmt.Sprintf("t%d recv: channel ready and context cancelled", t.ID)
				}
				out = append(out, transition{t: t})
			} else if x.sc.ParkInside && t.fresh {
				out = append(out, transition{t: t, early: true})
			}
			// an unbuffered rendezvous is listed under the sender
		}
	}
	if len(out) == 0 {
		for _, t := range x.tasks {
			if !t.ended && t.parked && t.cur.kind == KEnv && t.cur.idle {
				t.openedIdle = true
				out = append(out, transition{t: t})
			}
		}
	}
	return out
}

// opReady reports whether a blocking operation can complete without the context being cancelled.
func (x *Exec) opReady(o opInfo) bool {
	switch o.kind {
	case KSend:
		n, c := object.VerifChanState(o.ch)
		return x.closed[o.ch] || (c > 0 && n < c)
	case KRecv:
		n, _ := object.VerifChanState(o.ch)
		return x.closed[o.ch] || n > 0
	case KWait:
		select {
		case <-o.done:
			return true
		default:
			return false
		}
	}
	return false
}

// Blocked reports whether the task waits at a blocking operation that cannot complete now (for gate
// conditions of environment tasks; only meaningful while the tasks are parked).
func (x *Exec) Blocked(t *Task) bool {
	if t == nil || t.ended {
		return false
	}
	if t.inflight {
		return true
	}
	if !t.parked {
		return false
	}
	switch t.cur.kind {
	case KSend, KRecv, KWait:
		return !x.opReady(t.cur) && !ctxDone(t.cur.ctx)
	case KSleep:
		return !ctxDone(t.cur.ctx)
	}
	return false
}

// daemon: a task that only waits for a context that may never be cancelled.
func (t *Task) daemon() bool { return t.parked && t.cur.kind == KCtxWait }

// Divergence is raised (as a panic) when a replayed prefix does not fit the execution.
type Divergence struct{ Msg string }

func (x *Exec) describe() string {
	var sb strings.Builder
	for _, t := range x.tasks {
		fmt.Fprintf(&sb, "[t%d %s parked=%v ended=%v at %s %s]", t.ID, t.Label, t.parked, t.ended, t.cur.kind, t.cur.label)
	}
	return sb.String()
}

// run executes the scenario once following prefix, default choice 0 afterwards.
func run(sc *Scenario, prefix []int) (x *Exec, engineErr string) {
	x = &Exec{sc: sc, byGid: map[int64]*Task{}, events: make(chan event, 256), closed: map[*object.Chan]bool{}, closeVC: map[*object.Chan]vc{},
		chanVCs: map[*object.Chan][]vc{}, owner: map[any]*Task{}, readers: map[any]int{}, released: map[any]vc{}, locs: map[string]*locState{},
		cancelVC: map[<-chan struct{}]vc{}, inRecv: map[*object.Chan][]*Task{}, inSend: map[*object.Chan][]*Task{}, prefix: prefix, lastRun: -1, rootEndAt: -1}
	if sc.Setup != nil {
		x.State = sc.Setup()
	}
	cur.Store(x)
	defer cur.Store(nil)
	horizon, maxSteps := sc.Horizon, sc.MaxSteps
	if maxSteps == 0 {
		maxSteps = 20000
	}
	x.pending = 1 + len(sc.Env)
	go func() {
		x.register(nil, "main")
		defer func() {
			if atomic.LoadInt32(&x.abandon) == 0 {
				x.events <- event{t: x.me(), kind: 1}
			}
		}()
		sc.Body(x, x.State)
	}()
	// environment tasks register after main so that ids are stable: wait for main first
	if !x.quiesceUntilRegistered(1) {
		return x, "main task did not register"
	}
	for i, env := range sc.Env {
		env := env
		lbl := fmt.Sprintf("env%d", i)
		go func() {
			x.registerEnv(lbl)
			defer func() {
				if atomic.LoadInt32(&x.abandon) == 0 {
					x.events <- event{t: x.me(), kind: 1}
				}
			}()
			env(x, x.State)
		}()
		if !x.quiesceUntilRegistered(2 + i) {
			return x, "environment task did not register"
		}
	}
	steps := 0
	for {
		if !x.quiesce() {
			x.abandonAll()
			if x.ctxGranted != "" {
				x.Stuck = x.ctxGranted
				return x, ""
			}
			return x, "no quiescence within 45 s (unknown goroutine or unhooked blocking call): " + x.describe()
		}
		if sc.Stop != nil && sc.Stop(x, x.State) {
			x.Stopped = true
			break
		}
		alive := 0
		for _, t := range x.tasks {
			if !t.ended && !t.daemon() {
				alive++
			}
		}
		if alive == 0 {
			break
		}
		if x.tasks[0].ended {
			if !x.rootEnded {
				x.rootEndAt = len(x.Choices)
			}
			x.rootEnded = true
			x.afterRoot++
			if x.afterRoot > horizon {
				for _, t := range x.tasks {
					if !t.ended && t.parked && !t.daemon() {
						x.Leftover = append(x.Leftover, fmt.Sprintf("t%d(%s) at %s %s after %d steps", t.ID, t.Label, t.cur.kind, t.cur.label, t.Steps))
					}
				}
				break
			}
		}
		en := x.enabled()
		if x.Ambiguous != "" {
			x.abandonAll()
			return x, "uncontrolled select: " + x.Ambiguous
		}
		if len(en) == 0 {
			x.Deadlock = true
			break
		}
		// canonical order: a starved task first (fairness), then urgent environment tasks, then the
		// last-run task if still enabled, then ascending ids
		order := make([]int, 0, len(en))
		used := make([]bool, len(en))
		lastEnabled := false
		for _, tr := range en {
			if tr.t.ID == x.lastRun && !tr.early {
				lastEnabled = true
			}
		}
		for i, tr := range en {
			if tr.early {
				used[i] = true // listed last: entering a blocking operation early is never the default
			}
		}
		if x.sc.Fair > 0 {
			best := -1
			for i, tr := range en {
				if !tr.early && tr.t.waiting >= x.sc.Fair && (best < 0 || tr.t.waiting > en[best].t.waiting) {
					best = i
				}
			}
			if best >= 0 {
				order = append(order, best)
				used[best] = true
			}
		}
		for i, tr := range en {
			if !used[i] && tr.t.Urgent {
				order = append(order, i)
				used[i] = true
			}
		}
		for i, tr := range en {
			if !used[i] && tr.t.ID == x.lastRun {
				order = append(order, i)
				used[i] = true
			}
		}
		for i := range en {
			if !used[i] {
				order = append(order, i)
			}
		}
		for i, tr := range en {
			if tr.early {
				order = append(order, i)
			}
		}
		if len(order) > 0 && en[order[0]].early {
			// only early entries are possible: nobody can run, which is a deadlock of the scenario
			x.Deadlock = true
			break
		}
		ids := make([]int, len(order))
		for i, oi := range order {
			ids[i] = en[oi].t.ID
		}
		c := 0
		step := len(x.Choices)
		if step < len(prefix) {
			c = prefix[step]
			if c >= len(order) {
				x.abandonAll()
				if os.Getenv("VERIF_DSCHED_DEBUG") != "" {
					fmt.Fprintf(os.Stderr, "DSCHED-DEBUG divergence: prefix %v\n choices so far %v\n enabled so far %v\n now enabled ids %v\n trace %s\n", prefix, x.Choices, x.Enabled, ids, strings.Join(x.Trace, " "))
				}
				return x, fmt.Sprintf("replay divergence at step %d: choice %d of %d; %s", step, c, len(order), x.describe())
			}
		}
		x.Choices = append(x.Choices, c)
		x.Enabled = append(x.Enabled, ids)
		x.lastStillEnabled = append(x.lastStillEnabled, lastEnabled)
		tr := en[order[c]]
		first := en[order[0]].t
		deliberate := lastEnabled || first.Urgent || (x.sc.Fair > 0 && first.waiting >= x.sc.Fair)
		for _, e := range en {
			if e.t != tr.t && e.t != tr.partner {
				e.t.waiting++
			}
		}
		tr.t.waiting = 0
		if tr.partner != nil {
			tr.partner.waiting = 0
		}
		// a deviation costs one unit when the default was deliberate: the last-run task could have
		// continued, or the scheduler put a starved / urgent task first
		x.lastStillEnabled[len(x.lastStillEnabled)-1] = deliberate
		x.lastRun = tr.t.ID
		for _, u := range x.tasks {
			u.fresh = false
		}
		if msg := x.grant(tr); msg != "" {
			x.abandonAll()
			return x, msg
		}
		steps++
		if steps > maxSteps {
			x.abandonAll()
			return x, fmt.Sprintf("execution exceeded %d scheduling steps (livelock horizon)", maxSteps)
		}
	}
	x.abandonAll()
	return x, ""
}

func (x *Exec) quiesceUntilRegistered(n int) bool {
	deadline := time.After(60 * time.Second)
	for {
		x.mu.Lock()
		have := len(x.tasks)
		x.mu.Unlock()
		if have >= n && x.pending <= (1+len(x.sc.Env))-n {
			return true
		}
		select {
		case ev := <-x.events:
			switch ev.kind {
			case 3:
				x.pending--
				ev.t.parked = true
			case 2:
				x.pending++
			case 0:
				ev.t.parked = true
				ev.t.fresh = true
				x.running--
			case 1:
				ev.t.ended = true
				x.running--
			}
		case <-deadline:
			return false
		}
	}
}

func (x *Exec) grant(tr transition) (engineErr string) {
	t := tr.t
	o := t.cur
	if tr.early {
		return x.grantEarly(t)
	}
	x.Trace = append(x.Trace, fmt.Sprintf("t%d:%s:%s", t.ID, o.kind, o.label+o.field))
	x.hb(tr)
	x.wake(t, o)
	x.ctxGranted = ""
	switch o.kind {
	case KSend, KRecv, KWait, KSleep:
		if tr.partner == nil && ctxDone(o.ctx) && !x.opReady(o) {
			x.ctxGranted = fmt.Sprintf("t%d(%s) %s", t.ID, t.Label, o.kind)
		}
	}
	switch o.kind {
	case KClose:
		x.closed[o.ch] = true
	case KLock:
		if o.rlock {
			x.readers[o.mu]++
		} else {
			x.owner[o.mu] = t
		}
	case KUnlock:
		if o.rlock {
			x.readers[o.mu]--
		} else {
			delete(x.owner, o.mu)
		}
	}
	t.parked = false
	x.running++
	if tr.partner != nil {
		tr.partner.parked = false
		x.running++
		tr.partner.resume <- struct{}{}
	}
	t.resume <- struct{}{}
	return ""
}

// grantEarly lets t enter its blocking channel operation and waits until it is blocked in the
// channel's wait queue.
func (x *Exec) grantEarly(t *Task) string {
	o := t.cur
	if !hchanAvailable() {
		return "ParkInside: the channel wait queues cannot be read with this toolchain (self-test failed)"
	}
	x.Trace = append(x.Trace, fmt.Sprintf("t%d:%s-blocks-inside:%s", t.ID, o.kind, o.label))
	c := x.clockOf(t)
	c[t.ID]++
	if o.kind == KSend {
		x.inSend[o.ch] = append(x.inSend[o.ch], t)
		x.chanVCs[o.ch] = append(x.chanVCs[o.ch], c.copy()) // its value is received after the buffered ones
	} else {
		x.inRecv[o.ch] = append(x.inRecv[o.ch], t)
	}
	t.parked = false
	t.inflight = true
	t.resume <- struct{}{}
	deadline := time.Now().Add(45 * time.Second)
	for {
		r, s := chanWaiters(o.ch.Value())
		if r == len(x.inRecv[o.ch]) && s == len(x.inSend[o.ch]) {
			return ""
		}
		if time.Now().After(deadline) {
			return fmt.Sprintf("ParkInside: t%d did not block inside its %s (queues: %d receivers, %d senders)", t.ID, o.kind, r, s)
		}
		runtime.Gosched()
	}
}

// wake accounts for the tasks blocked inside a channel operation that the transition about to be
// granted releases: they run on to their next scheduling point like any granted task.
func (x *Exec) wake(t *Task, o opInfo) {
	release := func(w *Task, from vc) {
		w.inflight = false
		wc := x.clockOf(w)
		wc[w.ID]++
		if from != nil {
			wc.join(from)
		}
		x.running++
		x.Trace = append(x.Trace, fmt.Sprintf("t%d:woken-by-t%d", w.ID, t.ID))
	}
	c := x.clockOf(t)
	switch o.kind {
	case KSend:
		if q := x.inRecv[o.ch]; len(q) > 0 && !x.closed[o.ch] {
			// the value goes straight to the first blocked receiver
			x.inRecv[o.ch] = q[1:]
			if vq := x.chanVCs[o.ch]; len(vq) > 0 {
				x.chanVCs[o.ch] = vq[:len(vq)-1] // hb() queued this send's clock: it is consumed here
			}
			release(q[0], c)
		}
	case KRecv:
		if q := x.inSend[o.ch]; len(q) > 0 {
			// a slot (or the rendezvous) becomes free for the first blocked sender
			x.inSend[o.ch] = q[1:]
			_, capacity := object.VerifChanState(o.ch)
			if capacity == 0 {
				release(q[0], c)
			} else {
				release(q[0], nil)
			}
		}
	case KClose:
		for _, w := range x.inRecv[o.ch] {
			release(w, c)
		}
		for _, w := range x.inSend[o.ch] {
			release(w, c)
		}
		delete(x.inRecv, o.ch)
		delete(x.inSend, o.ch)
	}
}

func (x *Exec) abandonAll() {
	atomic.StoreInt32(&x.abandon, 1)
	live := false
	for _, t := range x.tasks {
		if !t.ended {
			t := t
			live = true
			if !t.parked {
				// still running: make sure it stops at its next hook even after this execution is gone
				zombies.Store(t.gid, true)
				nZombies.Add(1)
			}
			go func() {
				select {
				case t.resume <- struct{}{}:
				case <-time.After(5 * time.Second):
				}
			}()
		}
	}
	if !live {
		return // every task has ended: nothing can send any more, and nothing must keep this execution alive
	}
	// drain events of tasks that were still running so that they do not block
	events := x.events
	go func() {
		deadline := time.After(5 * time.Second)
		for {
			select {
			case <-events:
			case <-deadline:
				return
			}
		}
	}()
}

// ------------------------------------------------------------------ happens-before

type vc map[int]int

func (a vc) join(b vc) {
	for k, v := range b {
		if v > a[k] {
			a[k] = v
		}
	}
}
func (a vc) leq(b vc) bool {
	for k, v := range a {
		if v > b[k] {
			return false
		}
	}
	return true
}
func (a vc) copy() vc {
	c := make(vc, len(a))
	for k, v := range a {
		c[k] = v
	}
	return c
}

type locState struct {
	lastWrite  vc
	lastWriter int
	reads      []vc
	readers    []int
}

func (x *Exec) clockOf(t *Task) vc {
	if t.clock == nil {
		t.clock = vc{}
		if t.parent != nil {
			t.clock = x.clockOf(t.parent).copy()
		}
	}
	return t.clock
}

// hb updates vector clocks for the transition about to be granted and reports races on accesses.
func (x *Exec) hb(tr transition) {
	t := tr.t
	o := t.cur
	c := x.clockOf(t)
	c[t.ID]++
	switch o.kind {
	case KLock:
		if rel, ok := x.released[o.mu]; ok {
			c.join(rel)
		}
	case KUnlock:
		if prev, ok := x.released[o.mu]; ok && o.rlock {
			n := c.copy()
			n.join(prev)
			x.released[o.mu] = n
		} else {
			x.released[o.mu] = c.copy()
		}
	case KSend:
		if tr.partner != nil {
			pc := x.clockOf(tr.partner)
			pc[tr.partner.ID]++
			c.join(pc)
			pc.join(c)
		} else {
			x.chanVCs[o.ch] = append(x.chanVCs[o.ch], c.copy())
		}
	case KRecv:
		if q := x.chanVCs[o.ch]; len(q) > 0 {
			c.join(q[0])
			x.chanVCs[o.ch] = q[1:]
		} else if cv, ok := x.closeVC[o.ch]; ok {
			c.join(cv)
		}
	case KClose:
		x.closeVC[o.ch] = c.copy()
	case KWait:
		for _, u := range x.tasks {
			if u.ended && u.parent == t && u.clock != nil {
				c.join(u.clock) // joins every finished child (over-approximates happens-before: may only hide races between a parent and an unrelated child it did not wait for)
			}
		}
	case KCtxWait, KHaltStore:
		x.mu.Lock()
		if cv, ok := x.cancelVC[o.ctxCh]; ok {
			c.join(cv)
		}
		x.mu.Unlock()
	case KAccess:
		key := fmt.Sprintf("%p.%s", o.loc, o.field)
		ls := x.locs[key]
		if ls == nil {
			ls = &locState{}
			x.locs[key] = ls
		}
		if ls.lastWrite != nil && !ls.lastWrite.leq(c) {
			kind := "read"
			if o.write {
				kind = "write"
			}
			x.Races = append(x.Races, fmt.Sprintf("%s: write by t%d is unordered with %s by t%d", o.field, ls.lastWriter, kind, t.ID))
		}
		if o.write {
			for i, r := range ls.reads {
				if !r.leq(c) {
					x.Races = append(x.Races, fmt.Sprintf("%s: read by t%d is unordered with write by t%d", o.field, ls.readers[i], t.ID))
					break
				}
			}
			ls.lastWrite = c.copy()
			ls.lastWriter = t.ID
			ls.reads, ls.readers = nil, nil
		} else {
			ls.reads = append(ls.reads, c.copy())
			ls.readers = append(ls.readers, t.ID)
		}
	}
}

// ------------------------------------------------------------------ exploration

// Stats of one exploration.
type Stats struct {
	Executions     int
	Points         int // scheduling decisions taken over all executions
	BoundCompleted int
	Outcomes       map[string]int
	Violation      string
	ViolationSched []int
	ViolationTrace []string
	EngineError    string
	Capped         bool
	DeterminismOK  int // schedules replayed twice with identical traces
}

// Explore runs the DFS with iterative preemption bounding: bounds 0..maxBound are
// completed in order. limit caps the number of executions (0 = none).
func Explore(sc *Scenario, maxBound, limit int) *Stats {
	Install()
	st := &Stats{Outcomes: map[string]int{}, BoundCompleted: -1}
	// determinism: the default schedule twice
	a, e1 := run(sc, nil)
	b, e2 := run(sc, nil)
	if e1 != "" || e2 != "" {
		st.EngineError = e1 + e2
		return st
	}
	if a.Stuck == "" && b.Stuck == "" && strings.Join(a.Trace, " ") != strings.Join(b.Trace, " ") {
		// (an execution that ended with a task stuck in a granted operation is judged, and confirmed
		// by a replay, in the exploration below; its trace depends on when the wait was given up)
		st.EngineError = "the default schedule is not deterministic:\n " + strings.Join(a.Trace, " ") + "\n " + strings.Join(b.Trace, " ")
		return st
	}
	st.DeterminismOK++
	seen := map[string]bool{}
	for bound := 0; bound <= maxBound; bound++ {
		var rec func(prefix []int) bool
		rec = func(prefix []int) bool {
			if limit > 0 && st.Executions >= limit {
				st.Capped = true
				return false
			}
			x, eerr := run(sc, prefix)
			if eerr != "" {
				st.EngineError = eerr
				return false
			}
			if x.Stuck != "" {
				// confirm before believing a time-based observation
				y, e2 := run(sc, x.Choices)
				for try := 0; try < 2 && e2 == "" && y.Stuck == ""; try++ {
					y, e2 = run(sc, x.Choices) // goroutines of the abandoned execution may still have been winding down
				}
				if e2 != "" || y.Stuck == "" {
					tail := func(t []string) string {
						if len(t) > 12 {
							t = t[len(t)-12:]
						}
						return strings.Join(t, " ")
					}
					st.EngineError = "a task did not reach its next scheduling point within 45 s, and this did not reproduce: " + x.Stuck + " " + e2 + " | first: " + tail(x.Trace) + " | second: " + tail(y.Trace) + fmt.Sprintf(" | choices %d vs %d", len(x.Choices), len(y.Choices))
					return false
				}
				st.Executions++
				st.Violation = "a blocked operation did not return although its context was cancelled: " + x.Stuck
				st.ViolationSched = x.Choices
				st.ViolationTrace = x.Trace
				return false
			}
			sig := fmt.Sprint(x.Choices)
			if !seen[sig] {
				seen[sig] = true
				st.Executions++
				st.Points += len(x.Choices)
				if sc.Check != nil {
					v, key := sc.Check(x, x.State)
					st.Outcomes[key]++
					if v != "" {
						// confirm by replaying the exact schedule
						y, e := run(sc, x.Choices)
						if e != "" {
							st.EngineError = "replay of a violating schedule failed: " + e
							return false
						}
						if strings.Join(x.Trace, " ") != strings.Join(y.Trace, " ") {
							st.EngineError = "replay of a violating schedule diverged"
							return false
						}
						st.DeterminismOK++
						v2, _ := sc.Check(y, y.State)
						if v2 == "" {
							st.EngineError = "violation did not reproduce on replay: " + v
							return false
						}
						st.Violation = v
						st.ViolationSched = x.Choices
						st.ViolationTrace = x.Trace
						return false
					}
				}
			}
			for i := len(prefix); i < len(x.Choices); i++ {
				if sc.NoBranchAfterRoot && x.rootEndAt >= 0 && i >= x.rootEndAt {
					break
				}
				cost := preemptions(x, i)
				for alt := 1; alt < len(x.Enabled[i]); alt++ {
					c := cost
					if x.lastStillEnabled[i] {
						c++ // switching away from a runnable task is a preemption
					}
					if c > bound {
						continue
					}
					np := append(append([]int{}, x.Choices[:i]...), alt)
					if !rec(np) {
						if os.Getenv("VERIF_DSCHED_DEBUG") != "" && strings.Contains(st.EngineError, "divergence") {
							fmt.Fprintf(os.Stderr, "DSCHED-DEBUG parent of the diverging prefix %v (branch at %d):\n choices %v\n enabled %v\n trace %s\n", np, i, x.Choices, x.Enabled, strings.Join(x.Trace, " "))
							st.EngineError += " [parent printed]"
						}
						return false
					}
				}
			}
			return true
		}
		if !rec(nil) {
			return st
		}
		st.BoundCompleted = bound
	}
	return st
}

// preemptions counts the preemptions in x.Choices[:i].
func preemptions(x *Exec, i int) int {
	n := 0
	for k := 0; k < i; k++ {
		if x.Choices[k] != 0 && x.lastStillEnabled[k] {
			n++
		}
	}
	return n
}

// Replay runs one schedule and returns the execution.
func Replay(sc *Scenario, sched []int) (*Exec, string) {
	Install()
	return run(sc, sched)
}
