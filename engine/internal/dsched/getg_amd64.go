//go:build amd64

package dsched

func getg() uintptr

// gid identifies the calling goroutine by the address of its g structure: unique
// among live goroutines, and much cheaper than parsing runtime.Stack.
func gid() int64 { return int64(getg()) }
