//go:build !amd64

package dsched

import (
	"bytes"
	"runtime"
	"strconv"
)

func gid() int64 {
	var buf [64]byte
	n := runtime.Stack(buf[:], false)
	b := buf[:n]
	b = b[len("goroutine "):]
	b = b[:bytes.IndexByte(b, ' ')]
	id, _ := strconv.ParseInt(string(b), 10, 64)
	return id
}
