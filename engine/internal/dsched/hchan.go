package dsched

import (
	"reflect"
	"runtime"
	"strings"
	"sync"
	"time"
	"unsafe"
)

// Reading a Go channel's wait queues (go1.23 runtime.hchan layout). The scheduler lets a task
// enter a blocking channel operation before it can complete ("park inside"), so that the path
// "blocked, then woken by a send or a close" of the implementation is explored as well as the
// path "the operation was ready when it started". It then has to know that the goroutine really
// is blocked in the channel's queue before it lets anybody else run: that is read here. The
// layout is checked by a self-test on first use; if it fails the feature reports itself as
// unavailable and scenarios that ask for it are an engine error, never a silent gap.

type waitq struct{ first, last unsafe.Pointer }

type hchan struct {
	qcount   uint
	dataqsiz uint
	buf      unsafe.Pointer
	elemsize uint16
	closed   uint32
	timer    unsafe.Pointer
	elemtype unsafe.Pointer
	sendx    uint
	recvx    uint
	recvq    waitq
	sendq    waitq
}

// sudog: g, next, prev, ... (only next is read)
type sudogHead struct {
	g    unsafe.Pointer
	next unsafe.Pointer
}

func countQ(q *waitq) int {
	n := 0
	for p := q.first; p != nil && n < 64; p = (*sudogHead)(p).next {
		n++
	}
	return n
}

// chanWaiters returns the number of goroutines blocked receiving from / sending to ch.
func chanWaiters(ch any) (recv, send int) {
	h := (*hchan)(unsafe.Pointer(reflect.ValueOf(ch).Pointer()))
	if h == nil {
		return 0, 0
	}
	return countQ(&h.recvq), countQ(&h.sendq)
}

var (
	hchanOnce sync.Once
	hchanOK   bool
)

// hchanAvailable runs the self-test once: the toolchain must be the one the layout was written
// for and a goroutine blocked in a two-case select must show up in exactly the expected queue.
func hchanAvailable() bool {
	hchanOnce.Do(func() {
		if !strings.HasPrefix(runtime.Version(), "go1.23") {
			return
		}
		probe := func(send bool) bool {
			c := make(chan int, 1)
			if send {
				c <- 1 // full: a sender blocks
			}
			other := make(chan struct{})
			done := make(chan struct{})
			go func() {
				defer close(done)
				if send {
					select {
					case c <- 2:
					case <-other:
					}
				} else {
					select {
					case <-c:
					case <-other:
					}
				}
			}()
			ok := false
			for i := 0; i < 2000; i++ {
				r, s := chanWaiters(c)
				if (send && r == 0 && s == 1) || (!send && r == 1 && s == 0) {
					ok = true
					break
				}
				time.Sleep(100 * time.Microsecond)
			}
			close(other)
			<-done
			r, s := chanWaiters(c)
			return ok && r == 0 && s == 0
		}
		hchanOK = probe(false) && probe(true)
	})
	return hchanOK
}
