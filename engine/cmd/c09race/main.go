// c09race runs the C09 evaluation bodies free-running on many goroutines; built with -race it is the
// supplement that reports unsynchronised accesses the scheduler hooks do not name.
package main

import (
	"fmt"
	"os"
	"strconv"
	"sync"

	"github.com/risor-io/risor/object"

	"verif/internal/c09"
)

func main() {
	defer c09.Cleanup()
	rounds := 40
	if len(os.Args) > 1 {
		if n, err := strconv.Atoi(os.Args[1]); err == nil && n > 0 {
			rounds = n
		}
	}
	for _, sc := range c09.Scenarios() {
		for round := 0; round < rounds; round++ {
			object.VerifResetTypeCaches()
			var wg sync.WaitGroup
			bodies := sc.Make()
			for rep := 0; rep < 4; rep++ {
				for _, b := range bodies {
					b := b
					wg.Add(1)
					go func() {
						defer wg.Done()
						defer func() { recover() }()
						b()
					}()
				}
			}
			wg.Wait()
		}
		fmt.Println("done", sc.Name)
	}
}
