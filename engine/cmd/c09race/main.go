// c09race runs the C09 evaluation bodies free-running on many goroutines; built with -race it is the
// supplement that reports unsynchronised accesses the scheduler hooks do not name.
package main

import (
	"fmt"
	"sync"

	"github.com/risor-io/risor/object"

	"verif/internal/c09"
)

func main() {
	defer c09.Cleanup()
	for _, sc := range c09.Scenarios() {
		for round := 0; round < 40; round++ {
			object.VerifResetTypeCaches()
			var wg sync.WaitGroup
			bodies := sc.Make()
			for rep := 0; rep < 4; rep++ {
				for _, b := range bodies {
					b := b
					wg.Add(1)
					go func() {
						defer wg.Done()
						defer func() { recover() }()
						b()
					}()
				}
			}
			wg.Wait()
		}
		fmt.Println("done", sc.Name)
	}
}
