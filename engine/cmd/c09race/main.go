// c09race runs the C09 evaluation bodies free-running on many goroutines; built with -race it is the
// supplement that reports unsynchronised accesses the scheduler hooks do not name.
package main

import (
	"fmt"
	"os"
	"strconv"
	"sync"

	"github.com/risor-io/risor/object"

	"verif/internal/c09"
)

func main() {
	defer c09.Cleanup()
	rounds := 40
	if len(os.Args) > 1 {
		if n, err := strconv.Atoi(os.Args[1]); err == nil && n > 0 {
			rounds = n
		}
	}
	for _, sc := range c09.Scenarios() {
		for round := 0; round < rounds; round++ {
			object.VerifResetTypeCaches()
			var wg sync.WaitGroup
			bodies := sc.Make()
			var want []string
			if sc.Free {
				// what each evaluation returns alone, from fresh registries
				for _, b := range bodies {
					object.VerifResetTypeCaches()
					want = append(want, b())
				}
				object.VerifResetTypeCaches()
			}
			var mu sync.Mutex
			for rep := 0; rep < 4; rep++ {
				for i, b := range bodies {
					i, b := i, b
					wg.Add(1)
					go func() {
						defer wg.Done()
						defer func() {
							if p := recover(); p != nil && sc.Free {
								mu.Lock()
								fmt.Printf("RESULT-DIFFERS %s | evaluation %d panics when copies of the evaluations run at once: %v\n", sc.Name, i, p)
								mu.Unlock()
							}
						}()
						got := b()
						if sc.Free && got != want[i] {
							mu.Lock()
							fmt.Printf("RESULT-DIFFERS %s | evaluation %d returns %.200s when copies of the evaluations run at once, and %.200s alone\n", sc.Name, i, got, want[i])
							mu.Unlock()
						}
					}()
				}
			}
			wg.Wait()
		}
		fmt.Println("done", sc.Name)
	}
}
