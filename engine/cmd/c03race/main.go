// c03race runs one scenario of C03's shared space free-running; built with -race it reports every
// pair of accesses that no happens-before edge orders.
package main

import (
	"context"
	"fmt"
	"os"
	"strconv"
	"time"

	"github.com/risor-io/risor"
	ros "github.com/risor-io/risor/os"

	"verif/internal/c03"
)

func main() {
	i, err := strconv.Atoi(os.Args[1])
	scs := c03.SharedScenarios()
	if err != nil || i < 0 || i >= len(scs) {
		fmt.Println("bad scenario index")
		os.Exit(3)
	}
	ctx, cancel := context.WithTimeout(context.Background(), 20*time.Second)
	defer cancel()
	v, err := risor.Eval(ctx, scs[i].Src, risor.WithOS(ros.NewVirtualOS(ctx)), risor.WithConcurrency())
	fmt.Printf("RESULT %v %v\n", v, err)
}
