package main

import "verif/internal/c13"

func init() { registry["C13"] = entry{"exploration", c13.Check} }
