// check runs one property check: check <ID> [quick|thorough] [--replay file]
package main

import (
	"fmt"
	"os"
	"runtime/pprof"

	"verif/internal/ev"
)

type checkFn func(r *ev.Run, replay string)

type entry struct {
	level string
	fn    checkFn
}

var registry = map[string]entry{}

func main() {
	if len(os.Args) < 2 {
		fmt.Println("usage: check <ID> [quick|thorough] [--replay file]")
		os.Exit(2)
	}
	id := os.Args[1]
	if handleInternal(id, os.Args[2:]) {
		return
	}
	tier := os.Getenv("VERIF_TIER")
	replay := ""
	for i := 2; i < len(os.Args); i++ {
		switch os.Args[i] {
		case "quick", "thorough":
			tier = os.Args[i]
		case "--tier":
			i++
			tier = os.Args[i]
		case "--replay":
			i++
			replay = os.Args[i]
		}
	}
	if tier != "thorough" {
		tier = "quick"
	}
	e, ok := registry[id]
	if !ok {
		fmt.Println("ENGINE-ERROR unknown check", id)
		os.Exit(2)
	}
	r := ev.New(id, tier, e.level)
	if pf := os.Getenv("VERIF_CPUPROFILE"); pf != "" {
		f, err := os.Create(pf)
		if err == nil {
			pprof.StartCPUProfile(f)
			defer pprof.StopCPUProfile()
		}
	}
	e.fn(r, replay)
	pprof.StopCPUProfile()
	r.Finish()
}
