package main

import "verif/internal/c15"

func init() { registry["C15"] = entry{"exploration", c15.Check} }
