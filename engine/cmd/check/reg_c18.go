package main

import "verif/internal/c18"

func init() { registry["C18"] = entry{"model_checking", c18.Check} }
