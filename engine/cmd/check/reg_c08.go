package main

import "verif/internal/c08"

func init() {
	registry["C08"] = entry{"exploration", c08.Check}
	workers["c08-worker"] = c08.Worker
}
