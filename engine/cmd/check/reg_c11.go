package main

import "verif/internal/c11"

func init() { registry["C11"] = entry{"model_checking", c11.Check} }
