package main

import "verif/internal/c12"

func init() {
	registry["C12"] = entry{"exploration", c12.Check}
	workers["c12-worker"] = c12.Worker
}
