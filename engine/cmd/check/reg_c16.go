package main

import "verif/internal/c16"

func init() { registry["C16"] = entry{"model_checking", c16.Check} }
