package main

// handleInternal dispatches worker sub-commands (crash-isolated children).
func handleInternal(cmd string, args []string) bool {
	if f, ok := workers[cmd]; ok {
		f(args)
		return true
	}
	return false
}

var workers = map[string]func(args []string){}
