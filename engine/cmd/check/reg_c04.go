package main

import "verif/internal/c04"

func init() { registry["C04"] = entry{"model_checking", c04.Check} }
