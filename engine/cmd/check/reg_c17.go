package main

import "verif/internal/c17"

func init() { registry["C17"] = entry{"exploration", c17.Check} }
