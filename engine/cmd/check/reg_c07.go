package main

import "verif/internal/c07"

func init() { registry["C07"] = entry{"model_checking", c07.Check} }
