package main

import "verif/internal/c06"

func init() { registry["C06"] = entry{"model_checking", c06.Check} }
