package main

import "verif/internal/c10"

func init() { registry["C10"] = entry{"model_checking", c10.Check} }
