//go:build mapseam

package main

import "verif/internal/c05"

func init() { registry["C05"] = entry{"exploration", c05.Check} }
