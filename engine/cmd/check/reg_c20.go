package main

import "verif/internal/c20"

func init() { registry["C20"] = entry{"exploration", c20.Check} }
