package main

import "verif/internal/c14"

func init() { registry["C14"] = entry{"model_checking", c14.Check} }
