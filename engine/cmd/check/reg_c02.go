package main

import "verif/internal/c02"

func init() { registry["C02"] = entry{"exploration", c02.Check} }
