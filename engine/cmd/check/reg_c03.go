package main

import "verif/internal/c03"

func init() {
	registry["C03"] = entry{"exploration", c03.Check}
	workers["c03-worker"] = c03.Worker
	workers["c03-one"] = c03.One
}
