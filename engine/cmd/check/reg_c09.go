package main

import "verif/internal/c09"

func init() { registry["C09"] = entry{"model_checking", c09.Check} }
