package main

import "verif/internal/c19"

func init() { registry["C19"] = entry{"exploration", c19.Check} }
