package main

import "verif/internal/c01"

func init() { registry["C01"] = entry{"exploration", c01.Check} }
