module verif

go 1.23.0

require github.com/risor-io/risor v0.0.0

replace github.com/risor-io/risor => /repo
