#!/bin/sh
# Builds the framework offline from files on disk (pre-warms the Go build cache).
set -e
export GOFLAGS=-mod=mod GOPROXY=off GOSUMDB=off GOTOOLCHAIN=local GOWORK=off
V=$(cd "$(dirname "$0")" && pwd)
mkdir -p $V/.work/bin $V/evidence $V/replays
cd $V/engine
cp /repo/go.sum go.sum
go build -tags verif -o $V/.work/bin/check-all ./cmd/check
# the free-running supplements of C09 (quick and thorough) and C03 (thorough) are built with the race
# detector: warm that part of the build cache too
CGO_ENABLED=1 go build -race -tags verif -o $V/.work/bin/c09race ./cmd/c09race
CGO_ENABLED=1 go build -race -tags verif -o $V/.work/bin/c03race ./cmd/c03race
echo setup ok
