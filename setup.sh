#!/bin/sh
# Builds the framework offline from files on disk (pre-warms the Go build cache).
set -e
export GOFLAGS=-mod=mod GOPROXY=off GOSUMDB=off GOTOOLCHAIN=local GOWORK=off
V=$(cd "$(dirname "$0")" && pwd)
mkdir -p $V/.work/bin $V/evidence $V/replays
cd $V/engine
cp /repo/go.sum go.sum
go build -tags verif -o $V/.work/bin/check-all ./cmd/check
echo setup ok
