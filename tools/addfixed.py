#!/usr/bin/env python3
# usage: tools/addfixed.py <property> <commit> <text...>   - appends one "fixed:" entry to known_findings.json
import json, sys
p = '/verif/known_findings.json'
k = json.load(open(p))
k['fixed'].append("fixed: property=%s %s %s" % (sys.argv[1], sys.argv[2], " ".join(sys.argv[3:])))
json.dump(k, open(p, 'w'), indent=1, ensure_ascii=False)
