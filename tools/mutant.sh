#!/bin/sh
# usage: tools/mutant.sh <patch.diff | -R:<commit>> <tier> <ID> [ID...]
# Applies a patch to a scratch worktree of /repo (never /repo itself), runs the given checks against it
# with evidence redirected to a scratch directory, prints exit codes and VIOLATION lines, cleans up.
P=$1; TIER=$2; shift 2
WT=/tmp/wt-mut-$$; OUT=/tmp/out-mut-$$
git -C /repo worktree add -q --detach $WT HEAD || exit 2
mkdir -p $OUT
case "$P" in
  -R:*) (cd $WT && git revert --no-commit ${P#-R:} >/dev/null 2>&1) || { echo "revert failed"; } ;;
  *) git -C $WT apply "$P" || { echo "PATCH DOES NOT APPLY"; git -C /repo worktree remove --force $WT; exit 2; } ;;
esac
for ID in "$@"; do
  VERIF_REPO=$WT VERIF_OUT=$OUT /verif/run $ID $TIER > $OUT/$ID.log 2>&1
  echo "$ID exit=$? $(grep -c '^VIOLATION' $OUT/$ID.log) violation line(s)"
  grep -A3 '^VIOLATION\|ENGINE-ERROR' $OUT/$ID.log | cut -c1-300 | head -${MUT_LINES:-12}
done
git -C /repo worktree remove --force $WT
K=$(echo "$WT" | cksum | cut -d" " -f1)
rm -rf $OUT /verif/.work/alt-$K /verif/.work/seam-*-$K /verif/.work/bin/check-*-$K
