#!/bin/sh
# usage: tools/seed_batch.sh <dir prefix, e.g. /tmp/seed3-> <log dir> <ID...>
# For each ID: runs the seeded change in <prefix><ID>-out/patch.diff against check <ID> (quick) and
# confirms its demonstration; one log per ID in <log dir>.
PFX=$1; LOG=$2; shift 2
mkdir -p $LOG
cd "$(dirname "$0")/.."
for i in "$@"; do
  { echo "##### $i"; tools/seeded.sh $i-x $i ${PFX}$i-out/patch.diff quick $i; echo "##### verify"; tools/seed_verify.sh ${PFX}$i-out; } > $LOG/$i.log 2>&1
done
echo BATCHDONE
