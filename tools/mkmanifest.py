#!/usr/bin/env python3
"""Generates /verif/MANIFEST.json from the table below (kept here so it is edited in one place)."""
import json, subprocess

BASE = json.load(open('/root/.vp/BASELINE.json'))
props = [json.loads(l) for l in open('/verif/properties.jsonl')]

# id -> (level, technique, text, note, engine, design_ref)
CHECKS = {
 'C01': ('exploration', 'bounded-exhaustive program enumeration (grammar families up to a node budget) through the real lexer/parser/compiler/VM against an independent reference interpreter',
         'Every program of each grammar family up to its node budget is rendered to source, run through the real pipeline and through the reference interpreter internal/refsem; value, error class, ordered print/emit log and final globals must agree. Families: operator chains, control skeletons by node budget, functions, scoping (also inside closures over a function local: F4c), containers/strings incl. unpacking from every container, errors/defer/try, the composition family F8 (61 expression-bearing contexts x 16 value-preserving wrappers x 14 side-effecting inner expressions), every sequence of 1-3 deferred calls over four callee kinds ended by return / error / return inside a loop or switch, and wide programs (11..101 sibling scopes). Complete within the families and budgets reported in the evidence file.',
         'Trusted: the reference interpreter (DESIGN Appendix A semantics sheet; constructs outside the sheet are not generated or are skipped as outside-sheet). Programs larger than the node budget are not covered.',
         'E1 progen+refsem', '4 C01'),
 'C03': ('exploration', 'bounded-exhaustive enumeration of hostile inputs in crash-isolating worker processes (token sequences, grammar-slot templates, single-token edits, every default callable/method x hostile argument tuples, deep nesting)',
         'Every token sequence of <= 3 (thorough 4) tokens over a 68-token alphabet (incl. template strings with blank, comment-only and unbalanced interpolations), the full product of 24 statement/expression templates x 2-17 fillers per slot (absent, doubled, wrong kind; each alone and after a prelude defining the names), every single-token deletion/duplication and the insertion of a line break (thorough: also of separators and brackets) at every token gap of the function/container/error/closure families, every default-global callable and every builtin-type method name applied to tuples from 22 hostile values (cyclic containers, extreme integers, NaN, invalid UTF-8, closed channel, exhausted iterator, ...), operators and interpolation on all pairs, 17 constructs nested up to 10^3 (thorough 10^6) deep, and (thorough) 870 scripts whose goroutines share a map/set/list (operation pairs x spawn form x ordering, each free-running in a child built with -race; a report through the runtime map routines is the pattern behind fatal concurrent map writes) are pushed through Parse, Program.String, Compile, Eval and the error formatters inside worker children; a child that dies identifies the input in flight.',
         'Trusted: the worker protocol (index announced before each input). exec, network modules and exit are excluded (statement exemptions); memory exhaustion by inputs that carry an extreme size is exempt. Known findings: cyclic containers exhaust the native stack; script goroutines sharing a map or set reach the Go map unsynchronised (thorough).',
         'E5 enum + E7 crashbox', '4 C03'),
 'C04': ('model_checking', 'explicit-state search over (code, ip, stack height) of the compiled bytecode of every generated program, all paths; effect table validated against every instruction the real VM executes',
         'For every generated program the complete reachable (code, ip, operand-stack height) graph is explored with the invariants one-height-per-ip, no underflow, program ends with exactly its result; the stack-effect table is bound to the implementation by checking every instruction executed by the real VM (step hook) against it; loop skeletons are additionally run at 10 vs >2x/100x stack-capacity iterations against the reference interpreter. The program set includes the composition family F8 (e.g. arbitrary expressions as for-loop post clauses), closures over function locals, defer sequences with returns inside loops and switches, unpacking from every container and wide programs.',
         'Trusted: the effect table in internal/bcflow (validated per run by step-hook conformance), the vm step hook (tag verif). Programs outside the generated families are not covered.',
         'E2 bcflow', '4 C04'),
 'C02': ('exploration', 'bounded-exhaustive enumeration of closure nestings x capture level x call path against a reference interpreter with heap environments',
         'Every combination of nesting depth 1..3 (thorough 1..5), owning level, per-level in-place/returned call path, read/write access and 11 invocation routes (direct, containers, builtin callbacks, try, call, spawn, fn.spawn, vm.Get+vm.Call from Go) is rendered to source and run on the real pipeline and on the reference interpreter; the escaped closure is invoked twice and a sibling closure over the same binding is read afterwards. Plus the binding family F4c: every placement of up to 3 (thorough 4) operations on a name that is a local of the enclosing function over 7 slots of the inner function (incl. multi-target assignments to two captured variables), and the family C02multi: the innermost function uses the first parameter of every enclosing level at once (aligned or shifted slots, read/write, every mix of in-place and returned levels).',
         'Trusted: the reference interpreter. The former known finding (capture across a returned frame) has been repaired in the repository; any disagreement is a violation.',
         'E1 progen+refsem', '4 C02'),
 'C05': ('exploration', 'bounded-exhaustive enumeration of Go map iteration orders at every dynamic map-range site (source-to-source seam generated at check time) x corpus programs',
         'tools/mapseam rewrites all 59 range-over-map sites of the risor packages into a harness-controlled iterator (build overlay; /repo untouched). For every corpus program and every dynamic site it executes, every alternative order of that one site (all permutations for <= 3 keys; reverse, rotations, boundary swaps above) is forced; value, error text, output, MarshalCode bytes and re-marshalled bytes must equal the base order. The corpus includes every deterministic default builtin and every map/set method applied to a 4-key map and set, alone and with tie-making printing callbacks, map literals wrapped over several lines, and maps/sets that change while they are iterated.',
         'Trusted: the go/types-based rewriter finds every range over a map (sites are listed in .work/seam-*/sites.json); dependence on memory addresses and on timing is not covered.',
         'E6 mapseam', '4 C05'),
 'C06': ('model_checking', 'stateless model checking of the implementation: controlled scheduler over the hooked goroutines, every cancellation instant x every schedule up to a deviation bound, promptness counted in VM instructions',
         'Every combination of child prefix (go/spawn/fn.spawn, looping or blocked, nested to depth 2-3) x main shape (5 loop forms, recursion, 5 blocked operations, 7 callback-carrying builtins) x cancellation instant (every VM instruction of the main task is a scheduling point; the canceller gate opens at point k or when the system is idle) is run under internal/dsched, on a fresh VM and - for the scenarios without children and with a looping go-child - on a reused VM (RunCode after an earlier run with the same context; Call of a function on such a VM; a Call under its own context that waits for a thread started by an earlier run under another context); for main shapes that block also the instant at which the main task has blocked; every schedule with at most 1 (thorough 2) deviations of canceller, watcher goroutines, children and main is enumerated. Oracle: Eval returns the context error, at most 3 instructions are dispatched by a VM whose halt flag is set, no blocked operation survives the cancel, and after Eval returned every started task ends within the drain horizon.',
         'Trusted: the verif hooks cover every blocking operation and goroutine start of the packages involved; a granted operation that was enabled only by a cancelled context and does not return within 45 s (twice) is reported as blocked forever. Real-time latency is not measured.',
         'E3 dsched', '4 C06'),
 'C07': ('model_checking', 'explicit enumeration of API histories on one VM, each explored under the controlled scheduler over all placements of stale context cancellations and watcher stores up to a deviation bound; differential oracle against a fresh VM',
         'Every history of 1..3 invocations (thorough: larger alphabet, length 4) over RunCode/Call x outcome kinds (normal, runtime error at depth 0/2, recovered Go panic, frame overflow, cancelled mid-run, a Call that fails inside a function after it created a closure, a Call with a Go panic two frames deep, a Call that imports a file module failing half way, a Call that overflows the operand stack) x one stale cancel of an earlier invocation context; the canceller, the watcher goroutines of all runs and the main task are interleaved at VM-instruction granularity within the deviation bound. Each invocation must return the (value, error class, stack depth) it returns on a fresh VM, and a Call must leave the frame pointer where it found it.',
         'Trusted: the expected results are computed by the same harness on fresh VMs. One known finding (Call of a function whose code was replaced by a later RunCode).',
         'E4 histbfs on E3 dsched', '4 C07'),
 'C08': ('exploration', 'bounded-exhaustive enumeration of Go types (reflect-built, depth 2/3) x boundary values x 4 boundary routes with a contents + typed round-trip oracle',
         'Every Go type from 38 leaf types under 6 constructors to depth 2 (thorough 3), with zero/nil/min/max/ordinary values, crosses the boundary by 4 routes (global, field read, field write, method argument/result) in crash-isolated workers; contents must equal the normalised original, the typed round trip must be DeepEqual, or a clean error; never a panic. Array refill histories: a full list and then a shorter list into the same Go array type (also nested rows) must be rejected or leave the missing positions zero; struct refill histories: a map with an ill-typed field (its keys visited in each of the 6 orders, map seam) and then a one-field map into the same struct type.',
         'Trusted: the normalisation function N and the relaxations listed in DESIGN (nil vs empty, integer width under any). Types beyond depth 3, chan/func/complex are out of scope.',
         'E5 enum + E7 crashbox', '4 C08'),
 'C11': ('model_checking', 'explicit-state graph search: GetAttr closure of every configuration (fixpoint) + every script-level access path evaluated on the real VM; Go map iteration order owned through the map seam',
         'For every configuration that denies or overrides any single default name (1232 configurations; thorough adds all in-module pairs, 34931) the object graph reachable from the configured globals under GetAttr is explored to a fixpoint and checked for removed objects / missing replacements; 10958 generated script access paths are evaluated per relevant configuration; sequences of configurations are checked for interference, also on one VM reused through risor.WithVM (default configuration first, then a module denied / no defaults). Deny lists of several names (every name x 3 unresolvable spellings in both orders; module+member+outside name in every order; mixed lists of 3, thorough 4, names): risor applies them in Go map order, so the check is built with the map seam (cmd/mapseam overlay) and constructs each configuration once per order - base order plus every single-site deviation at every map range the construction executes (all permutations for <= 4 keys).',
         'Trusted: object identity by pointer and (Key, Go function symbol) fingerprint; values obtained by calling builtins are not followed.',
         'E4 graph search', '4 C11'),
 'C15': ('exploration', 'bounded-exhaustive enumeration of all pairs and triples over a 45-value boundary pool and all short lists as sort/set inputs, checked against the algebraic laws',
         'All 2025 pairs and 91125 triples over the boundary pool through the object API and through real scripts, all lists up to length 3 (thorough 5) over 11 alphabets through sorted/sort/set/in/truthiness, plus all 3^13 lists of length 13 for sort stability, and long-input families (lists of 14..40 elements incl. floats with signed zeros, where the library changes algorithm); each law of the statement has its own signature.',
         'Trusted: the law checker; cross-type transitivity is not demanded (statement). One known finding (set membership across numeric types).',
         'E5 enum', '4 C15'),
 'C16': ('model_checking', 'explicit-state BFS to a fixpoint over reachable container states (real objects replayed from the shortest history) against a Go slice/map reference model, plus all un-merged operation sequences to depth 2/3',
         'Reachable states of list, map, set, string and byte_slice under the full operation alphabet with indices in [-len-2, len+2] (map values include nil) are explored to a fixpoint; quick adds every depth-3 sequence ordered view / other operation / ordered view for maps and sets (what a read leaves behind in the object is invisible to the merged search); every (state, operation) step is executed on fresh real objects through the object API (and a stride / all of them through real scripts) and compared with the reference model on result, error and the contents of every live alias.',
         'Trusted: the reference model in internal/c16/model.go; the state key (contents of all live variables) is complemented by un-merged sequences so hidden state (capacity) cannot hide.',
         'E4 histbfs', '4 C16'),
 'C17': ('exploration', 'bounded-exhaustive differential execution: every corpus program compiled, marshalled, unmarshalled and run side by side with the original',
         'Every program of the shared corpus (all C01/C02 families plus every constant kind and string escape) is compiled, marshalled twice, compiled again, unmarshalled, re-marshalled, and the original and reloaded code are run on fresh VMs; bytes must be equal at each step and behaviour identical; after the run the code object must marshal to the same bytes and load again to the same behaviour. Incremental sessions: every sequence of <= 3 pieces over 11 pieces compiled one after the other by one compiler, the growing code object marshalled and reloaded after each piece.',
         'Trusted: the harness comparison of (stage, error class/message, value text, output log). Programs outside the corpus are not covered.',
         'E1 progen', '4 C17'),
 'C20': ('exploration', 'bounded-exhaustive enumeration of layout variants at every token gap and of single-token edits, against a position-free dump of the real AST and positional sanity of every diagnostic',
         'For every corpus program: every token gap x permitted insertions, line breaks where the statement allows them, comments (also two in a row) at line ends, blank lines, CRLF; the reflection dump of the real AST (positions removed) must equal the original. For diagnostics: every single-token deletion/duplication (each also with CRLF line ends)/substitution and every prefix; each parse/compile error must point inside the source, quote that line verbatim, and render without failing.',
         'Trusted: the harness renderer knows the syntactic role of each gap (line breaks are only inserted after commas of list/map/set/argument lists, symbolic binary operators and pipes). Two known findings (positions at end of input).',
         'E5 enum over E1 corpus', '4 C20'),
 'C18': ('model_checking', 'explicit enumeration of all piece histories up to a depth on one compiler + one VM driven as the REPL does, against a reference session model',
         'Every sequence of 1..3 (thorough 4) pieces over the full piece alphabet and every sequence of 1..4 (thorough 5) pieces over the core pieces joined with each thematic group (constants, output, closures, shadowing, function factories, forward references, name tables, stack overflow) (definitions, uses, loop, closure, constant; rejected pieces: undefined name, constant assignment, redeclaration, rejected piece with side-effecting prefix, rejected pieces that shadow an earlier global inside a block, syntax error; failing pieces, one mid-piece) is fed to one compiler and one VM exactly as cmd/risor/repl does; per-piece status, value and output and the final globals must equal the reference session model (rejected pieces have no effect, failed pieces keep their effects up to the failure); a 1200-input session must not exhaust the VM.',
         'Trusted: the session model in internal/refsem (Session). The value of a piece that ends in a named function definition is not compared.',
         'E4 histbfs + E1 refsem', '4 C18'),
 'C19': ('exploration', 'bounded-exhaustive enumeration of argument tuples over boundary pools for every discovered wrapper function, compared with the direct Go call; codec round trips and all short malformed inputs',
         'Every function/method of strings, strconv, math, bytes, base64, filepath, regexp, json, string and byte_slice methods (discovered from the live modules; an unknown function is an engine error) is called with every argument tuple over its pools through the object API and through scripts and compared with the Go standard library; every codec round-trips every pool value and rejects exactly the malformed inputs (all strings <= 4 over a 6-symbol alphabet) that Go rejects; json codec and json module must agree; every ordered pair of encodes (and decodes) per codec must leave the first result unchanged and both must still round-trip (independence of results).',
         'Trusted: the table of Go closures in internal/c19/table.go. Four known findings (json codec vs module on byte_slice and nil; invalid UTF-8 through encoding/json).',
         'E5 enum', '4 C19'),
 'C09': ('model_checking', 'stateless model checking of the implementation: 2-3 concurrent evaluations under the controlled scheduler, every schedule of the lock/access hook points up to a preemption bound, vector-clock happens-before race detection',
         'Scenarios of 2-3 concurrent risor.Eval calls on separate VMs (distinct receivers and arguments per evaluation, so that shared scratch state shows in the results; values of different dynamic types through any-typed positions; edits of the attribute map of a Go type) that meet on one piece of package-level or shared state (Go type registries through globals, field access and proxy method calls; the codec registry incl. registration; a shared importer; one compiled code object on two VMs; two clones of one VM). Package caches are reset before every execution; every schedule with at most 2 (thorough 3) preemptions is explored; a vector-clock detector reports conflicting hooked accesses that are not ordered by locks/spawn/join, and every result must equal the sequential result. The same bodies also run free in a build with the Go race detector (quick 6 rounds, thorough 40).',
         'Trusted: the access hooks name every package-level map and cache of the anchored files (typeConverters, goTypeRegistry, GoType.converter, codecs, importer code caches); accesses the hooks do not name are only covered by the -race supplement.',
         'E3 dsched', '4 C09'),
 'C10': ('model_checking', 'stateless model checking of the implementation: controlled scheduler over the hooked goroutines, DFS over all schedules up to a preemption bound, happens-before race detection on hooked accesses',
         'Each producer/consumer scenario (senders x receivers x buffer x messages x 4 receive forms x 3 spawn forms; spawn-argument scenarios incl. the spawn method as a callback of each/map and a wide helper that spawns closures over its locals) is run as real risor evaluations under the controlled scheduler internal/dsched; every schedule with at most 2 preemptions is enumerated - including, for every send or receive that cannot complete on arrival, the alternative that the task enters the real operation and blocks inside it until a later send, receive or close wakes it (the scheduler reads the wait queue of the Go channel to know it is blocked), so the blocked-then-woken paths of the implementation run too - and every complete execution is judged: received multiset == sent multiset, per-sender order per receiver, wait() values, nil after close, no deadlock, no leftover task, no unordered access to the channel fields.',
         'Trusted: the scheduler owns every blocking operation through the verif hooks (channel send/receive/close, thread wait, spawn/start/end, context wait, halt store); instruction-level interleavings inside one VM step and memory-model effects below hook granularity are not modelled. 10^4-message runs are out of reach (DESIGN section 5).',
         'E3 dsched', '4 C10'),
 'C14': ('model_checking', 'explicit-state BFS over import-statement histories against a reference model, plus bounded-exhaustive enumeration of import path texts x spellings x importers with sentinels outside the root',
         'Part A: every path text of <= 3 (thorough 4) segments over a hostile segment alphabet x 16 import spellings x 3 importers (recording fs.FS, naive joining fs.FS, local importer on a real tree) with sentinel modules planted at every reachable outside location. Part B: every sequence of <= 3 (thorough 4) import statements over a 24-letter alphabet (incl. one name under two aliases, two file modules in one from-import, byte-identical twin modules) on a module tree with shared names, a diamond and a failing module; each sequence is executed on the real implementation with both importers and additionally statement by statement on one compiler and one VM (the REPL way) and every probe is compared with a reference model (module bodies run exactly once, aliases share state, globals are separate).',
         'Trusted: the reference model of module state in internal/c14; import cycles are not generated.',
         'E4 histbfs + E5 enum', '4 C14'),
 'C12': ('exploration', 'bounded-exhaustive enumeration of every OS-touching function/method (discovered from the live modules) x argument tuples x execution contexts x ways of supplying the OS, against a recording OS; real-process effects checked after every case',
         'Every function of the os, filepath and fmt modules, the OS-touching builtins and every file-object method (80 discovered names; an unknown name is an engine error) x 168 argument tuples whose paths and variable names carry a marker x 12 execution contexts (thorough 252: spawn, go, clone, imported module, callbacks, risor.Call, composed chains) x OS supplied by option / context / both; plus 81 reused-VM contexts (OS of the first run x the source of the OS of the second run - option, context, or none at all - x entry form RunCode/Eval/Call on the same VM and context). Oracle: the recording OS logged exactly the expected calls and the script saw its answers; cwd, environment, temp dir, / and real stdio of the worker are untouched; a static scan of the anchored files finds no direct os/syscall use; thorough: no syscall argument under strace carries the marker.',
         'Trusted: the call templates (expected OS-call logs) in internal/c12/cases.go. exec, network modules and the importer\'s own file reads are exempt by the statement; os.exit(non-zero) inside go-statement contexts is excluded (it would block the harness).',
         'E5 enum + E7 crashbox', '4 C12'),
 'C13': ('exploration', 'bounded-exhaustive enumeration of path strings x operations x layouts against a component-wise containment oracle',
         'Every path string over the 7-segment alphabet up to 5 (quick) / 6 (thorough) segments, absolute/relative, with/without trailing separator, is pushed through os.ResolvePath, through every localfs operation on a real temp tree with sentinels outside the base, and through every VirtualOS operation over 7 mount tables x 4 working directories with recording filesystems; the oracle is an independent component-wise prefix computation. Part D: every history of <= 3 (thorough 4) steps over Stat/Remove/Rename on relative and absolute paths and Chdir on one VirtualOS per mount table, each step judged against the working directory of that moment. Part E: every history of <= 3 steps over symlink creation at three depths, renames that move links and directories to other depths, and reads/writes through the links on one based localfs on a real tree. Complete within the stated alphabet and length.',
         'Trusted: the oracle in internal/c13 (filepath.Clean + component-wise prefix); effects observed on a real tmpfs tree. Not covered: segments outside the alphabet, host-planted symlinks.',
         'E5 enum', '4 C13'),
}

NOT_YET = 'check not built yet in this round (see DESIGN.md section 4 for the planned exhaustive exploration)'

checks, na = [], []
for p in props:
    i = p['id']
    if i in CHECKS:
        lvl, tech, text, note, eng, ref = CHECKS[i]
        checks.append({
            'property_id': i,
            'quick_cmd': f'./run {i} quick',
            'thorough_cmd': f'./run {i} thorough',
            'evidence_file': f'/verif/evidence/{i}.json',
            'replay_cmd_template': f'./run {i} quick --replay {{path}}',
            'engine': eng,
            'level_claimed': {'category': lvl, 'text': text, 'design_ref': ref},
            'level_note': note,
            'technique': tech,
        })
    else:
        na.append({'property_id': i, 'reason': NOT_YET})

hook_commits = subprocess.run(['git', '-C', '/repo', 'log', '--format=%H %s', 'd7afc3f..HEAD'], capture_output=True, text=True).stdout.splitlines()
hook_commits = [l.split()[0] for l in hook_commits if ' verif-hook:' in l or l.split(' ', 1)[1].startswith('verif-hook')]

m = {
 'version': 1,
 'setup_cmd': './setup.sh',
 'hooks': {
   'guard': 'verif',
   'enable': 'go build -tags verif (done by /verif/run; hook call sites are empty inlined functions without the tag)',
   'baseline_off_cmd': BASE['cmd'],
   'source_commits': hook_commits,
   'add_only': True,
 },
 'engines': [
   {'name': 'E5 enum', 'path': 'engine/internal/c13', 'serves_properties': ['C13'], 'kind_free_text': 'bounded-exhaustive finite-domain enumeration on the real code'},
 ],
 'checks': checks,
 'not_applicable': na,
 'notes': 'All checks are sub-commands of one Go binary rebuilt by ./run from /repo\'s working tree with -tags verif. Exit 0 held / 1 VIOLATION / 2 ENGINE-ERROR. Known findings: /verif/known_findings.json.',
}
if not na:
    del m['not_applicable']
json.dump(m, open('/verif/MANIFEST.json', 'w'), indent=1)
print('checks', len(checks), 'not_applicable', len(na))
