#!/bin/sh
# Runs the repository's pinned test suite (guard off) exactly as BASELINE.json does and compares
# the result with its stable_pass list. Prints the tests that no longer pass.
OUT=${1:-/tmp/verif-baseline.json}
CMD=$(python3 -c "import json;print(json.load(open('/root/.vp/BASELINE.json'))['cmd'])")
sh -c "$CMD" > $OUT 2>/dev/null
python3 - $OUT <<'PY'
import json,sys
b=json.load(open('/root/.vp/BASELINE.json'))
passed,failed=set(),set()
for line in open(sys.argv[1],errors='replace'):
    line=line.strip()
    if not line.startswith('{'): continue
    try: ev=json.loads(line)
    except Exception: continue
    a=ev.get('Action'); t=ev.get('Test')
    if t is None or a not in('pass','fail'): continue
    (passed if a=='pass' else failed).add(ev.get('Package','')+'::'+t)
passed-=failed
missing=[t for t in b['stable_pass'] if t not in passed]
print('stable_pass',len(b['stable_pass']),'passing now',len(passed),'missing',len(missing))
for t in missing[:40]: print('  MISSING',t)
PY
