#!/usr/bin/env python3
"""usage: seed_record.py <name> <property> <seed out dir> <caught_by (comma list or 'none')> <needs> [note]
Copies a confirmed seeded change into /verif/seeded/<name>/ and writes meta.json."""
import sys, os, shutil, json
name, prop, src, caught, needs = sys.argv[1:6]
note = sys.argv[6] if len(sys.argv) > 6 else ''
dst = f'/verif/seeded/{name}'
os.makedirs(dst, exist_ok=True)
for f in os.listdir(src):
    p = os.path.join(src, f)
    if os.path.isdir(p):
        shutil.copytree(p, os.path.join(dst, f), dirs_exist_ok=True)
    else:
        shutil.copy(p, dst)
meta = {
 'property': prop,
 'breaks': open('/verif/properties.jsonl').read() and [json.loads(l)['title'] for l in open('/verif/properties.jsonl') if json.loads(l)['id'] == prop][0],
 'needs_to_manifest': needs,
 'confirmed_by': 'tools/seed_verify.sh: demonstration passes on the unchanged tree and fails with patch.diff; go build (with and without -tags verif) and go test -vet=off -count=1 ./... pass with the patch',
 'checks_run': f'tools/seeded.sh (VERIF_REPO=<scratch worktree with patch> ./run <check> quick)',
 'caught_by': [] if caught == 'none' else caught.split(','),
 'note': note,
}
json.dump(meta, open(os.path.join(dst, 'meta.json'), 'w'), indent=1)
print('recorded', dst, meta['caught_by'])
