#!/bin/sh
# usage: tools/seeded.sh <ID-name> <property id> <patch.diff> <tier> <check ids...>
# Applies a seeded change to a scratch worktree, runs risor's own test suite on it (must pass),
# then runs the given checks against it. Prints one line per step.
NAME=$1; PROP=$2; PATCH=$3; TIER=$4; shift 4
export GOFLAGS=-mod=mod GOPROXY=off GOSUMDB=off GOTOOLCHAIN=local GOWORK=off
WT=/tmp/wt-seed-$$; OUT=/tmp/out-seed-$$
git -C /repo worktree add -q --detach $WT HEAD || exit 2
git -C $WT apply "$PATCH" || { echo "PATCH DOES NOT APPLY"; git -C /repo worktree remove --force $WT; exit 2; }
(cd $WT && go build ./... && go build -tags verif ./... ) > $OUT.build 2>&1 && echo "builds: yes" || { echo "builds: NO"; head -5 $OUT.build; }
(cd $WT && go test -vet=off -count=1 ./... 2>&1 | grep -v "^ok\|no test files" | head -5) > $OUT.tests; if [ -s $OUT.tests ]; then echo "suite: FAILS"; cat $OUT.tests; else echo "suite: passes"; fi
mkdir -p $OUT
for ID in "$@"; do
  VERIF_REPO=$WT VERIF_OUT=$OUT /verif/run $ID $TIER > $OUT/$ID.log 2>&1
  echo "$ID exit=$? $(grep -c '^VIOLATION' $OUT/$ID.log) violation line(s)"
  grep -A2 '^VIOLATION\|ENGINE-ERROR' $OUT/$ID.log | cut -c1-260 | head -${MUT_LINES:-6}
done
K=$(echo "$WT" | cksum | cut -d" " -f1)
git -C /repo worktree remove --force $WT
rm -rf $OUT $OUT.build $OUT.tests /verif/.work/alt-$K /verif/.work/seam-*-$K /verif/.work/bin/check-*-$K
