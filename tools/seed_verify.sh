#!/bin/sh
# usage: tools/seed_verify.sh <seed out dir>
# Confirms a seeded change independently: the demonstration passes on the unchanged tree and
# fails with the patch; the repository's own suite still passes with the patch.
D=$1
export GOFLAGS=-mod=mod GOPROXY=off GOSUMDB=off GOTOOLCHAIN=local GOWORK=off
WT=/tmp/wt-sv-$$
git -C /repo worktree add -q --detach $WT HEAD || exit 2
demo() {
  if [ -f $D/demo_test.go ]; then
    PKGDIR=$(grep -m1 -o 'DEMO_DIR=[a-z/_.]*' $D/README.md 2>/dev/null | cut -d= -f2); PKGDIR=${PKGDIR:-.}
    NEWDIR=; [ -d $WT/$PKGDIR ] || { NEWDIR=1; mkdir -p $WT/$PKGDIR; }
    cp $D/demo_test.go $WT/$PKGDIR/zz_seed_demo_test.go
    (cd $WT/$PKGDIR && go test -vet=off -count=${DEMO_COUNT:-1} -run "$(grep -o '^func Test[A-Za-z0-9_]*' $D/demo_test.go | sed 's/func //' | paste -sd'|')" . 2>&1 | tail -3)
    rm -f $WT/$PKGDIR/zz_seed_demo_test.go; [ -n "$NEWDIR" ] && rm -rf $WT/$PKGDIR
  elif [ -f $D/demo/main.go ]; then
    mkdir -p $WT/zzdemo && cp $D/demo/*.go $WT/zzdemo/ && (cd $WT && go run ./zzdemo 2>&1 | tail -3; echo "exit=$?"); rm -rf $WT/zzdemo
  else
    echo "no demonstration found"; ls $D
  fi
}
echo "--- demonstration on the unchanged tree"; demo
git -C $WT apply $D/patch.diff || echo "PATCH DOES NOT APPLY"
echo "--- demonstration with the change"; demo
echo "--- repository suite with the change"; (cd $WT && go build ./... && go build -tags verif ./... && go test -vet=off -count=1 ./... 2>&1 | grep -v "^ok\|no test files" | head -5); echo "(end of suite output; empty = all packages ok)"
git -C /repo worktree remove --force $WT
